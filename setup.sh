#!/bin/bash
# setup_cmd: warm the build cache (plain and -race) from files on disk; offline.
set -e
cd "$(dirname "$0")"
export GOFLAGS=-mod=mod GOPROXY=off GOSUMDB=off GOTOOLCHAIN=local CGO_ENABLED=1
export GOCACHE="$(pwd)/.gocache"
mkdir -p bin work evidence replays
cp -f /repo/go.sum mc/go.sum 2>/dev/null || true
(cd mc && go build -o ../bin/vmc . && go build -race -o ../bin/vmc-race . && go build -cover -coverpkg=github.com/emirpasic/gods/v2/...,verif/mc -o ../bin/vmc-cover .)
echo "setup ok"
