package main

import (
	"fmt"
	"math"
	"strings"

	"github.com/emirpasic/gods/v2/queues/priorityqueue"
	"github.com/emirpasic/gods/v2/sets/treeset"
	"github.com/emirpasic/gods/v2/trees/binaryheap"
)

// jobsFor lists the exploration jobs of one property at one tier.
func jobsFor(prop, tier string) []Job {
	q := tier != "thorough"
	var jobs []Job
	add := func(kind string, id string, w int, s map[string]string, p map[string]int) {
		dl := 240
		if !q {
			dl = 2400
		}
		jobs = append(jobs, Job{ID: prop + "." + id, Prop: prop, Kind: kind, Tier: tier, S: s, P: p, DeadlineS: dl, Weight: w})
	}
	pick := func(a, b int) int {
		if q {
			return a
		}
		return b
	}
	switch prop {
	case "C01":
		kvTreeJobs(prop, q, add)
		u := pick(4, 5)
		for _, k := range []string{"hashmap", "linkedhashmap"} {
			add("kv", fmt.Sprintf("%s.u%d", k, u), u, map[string]string{"c": k}, map[string]int{"u": u})
		}
		for _, c := range []string{"nat", "rev", "coarse"} {
			add("kv", fmt.Sprintf("treemap.fixed.%s.u%d", c, u+2), u, map[string]string{"c": "treemap", "cmp": c}, map[string]int{"u": u + 2})
		}
		defaultCtorJobs(prop, q, add)
		bidiJobs(prop, q, add)
		typedJobs("trees", add)
		typedJobs("hashmaps", add)
		typedJobs("bidi", add)
		treadmillJobs([]string{"rbt", "avl", "btree", "treemap", "hashmap", "linkedhashmap", "treebidimap", "hashbidimap"}, add)
		xlJobs(q, []string{"linkedhashmap"}, add)
	case "C02":
		defaultCtorJobs(prop, q, add)
		kvTreeJobs(prop, q, add)
		bidiJobs(prop, q, add)
		typedJobs("trees", add)
		typedJobs("bidi", add)
		treadmillJobs([]string{"rbt", "avl", "btree", "treemap", "treeset"}, add)
		tallJobs(q, add)
	case "C07":
		kvTreeJobs(prop, q, add)
		jsonFamilyJobs(q, add)
		defaultCtorJobs(prop, q, add)
		bidiJobs(prop, q, add)
		typedJobs("trees", add)
		treadmillJobs([]string{"rbt", "avl", "btree", "treemap"}, add)
	case "C10":
		bidiJobs(prop, q, add)
		typedJobs("bidi", add)
		treadmillJobs([]string{"treebidimap", "hashbidimap"}, add)
	case "C03":
		n := pick(6, 8)
		for _, k := range []string{"arraylist", "singlylinkedlist", "doublylinkedlist"} {
			add("list", fmt.Sprintf("%s.n%d", k, n), n, map[string]string{"c": k}, map[string]int{"n": n, "u": 3})
			add("list", fmt.Sprintf("%s.struct.n4", k), 4, map[string]string{"c": k, "elem": "struct"}, map[string]int{"n": 4})
			// deep, data-independent: fresh values dropped from the fingerprint, state = (length, capacity)
			dn := pick(70, 140)
			add("list", fmt.Sprintf("%s.deep.n%d", k, dn), n, map[string]string{"c": k}, map[string]int{"n": dn, "deep": 1})
		}
		typedJobs("lists", add)
		xlJobs(q, []string{"arraylist", "singlylinkedlist", "doublylinkedlist"}, add)
		treadmillJobs([]string{"arraylist", "singlylinkedlist", "doublylinkedlist"}, add)
		for _, c := range []string{"arraylist", "singlylinkedlist", "doublylinkedlist"} {
			add("bulklarge", "bulklarge."+c, 20, map[string]string{"c": c}, nil)
		}
	case "C04":
		u := pick(4, 5)
		add("set", fmt.Sprintf("hashset.u%d", u), u, map[string]string{"c": "hashset"}, map[string]int{"u": u})
		add("set", fmt.Sprintf("linkedhashset.u%d", u), u*u, map[string]string{"c": "linkedhashset"}, map[string]int{"u": u})
		add("set", fmt.Sprintf("treeset.New.u%d", u+1), u*u, map[string]string{"c": "treeset", "ctor": "default"}, map[string]int{"u": u + 1})
		for _, c := range []string{"hashset", "linkedhashset"} {
			add("anysys", c+".float", 1, map[string]string{"c": c, "elem": "float"}, nil)
		}
		add("anysys", "linkedhashset.deep", 1, map[string]string{"c": "linkedhashset"}, map[string]int{"n": pick(24, 48), "deep": 1})
		// large hash-based sets (fresh members, state = size): bulk Add of 33, ONE Remove call that takes out
		// most of the members (after seeded change C04-13: a table re-allocated in the middle of such a call)
		add("anysys", "hashset.deep", 1, map[string]string{"c": "hashset"}, map[string]int{"n": pick(100, 200), "deep": 1})
		add("anysys", "linkedhashset.deep.large", 1, map[string]string{"c": "linkedhashset"}, map[string]int{"n": pick(100, 200), "deep": 1})
		// the default comparator of treeset.New must order the whole element type (float64 with NaN)
		add("kv", "treeset.New.float64", 3, map[string]string{"c": "treeset", "ctor": "default", "elem": "float"}, nil)
		for _, c := range []string{"nat", "rev", "coarse"} {
			add("set", fmt.Sprintf("treeset.%s.u%d", c, u+1), u*u, map[string]string{"c": "treeset", "cmp": c}, map[string]int{"u": u + 1})
			n := pick(10, 14)
			add("kv", fmt.Sprintf("treeset.rank.%s.n%d", c, n), n*n, map[string]string{"c": "treeset", "cmp": c}, map[string]int{"n": n, "rank": 1})
		}
		typedJobs("sets", add)
		xlJobs(q, []string{"hashset", "linkedhashset"}, add)
		treadmillJobs([]string{"hashset", "linkedhashset", "treeset"}, add)
	case "C06":
		typedJobs("heaps", add)
		rewoundJobs("heaps", q, add)
		treadmillJobs([]string{"binaryheap", "priorityqueue"}, add)
		for _, c := range []string{"binaryheap", "priorityqueue"} {
			add("heapreload", "heapreload."+c, 20, map[string]string{"c": c}, nil)
		}
		for _, k := range []string{"binaryheap", "priorityqueue"} {
			add("heapnew", fmt.Sprintf("%s.New.n%d", k, pick(6, 8)), 30, map[string]string{"c": k}, map[string]int{"n": pick(6, 8), "u": 3})
			add("heapnewf", fmt.Sprintf("%s.New.float.n%d", k, pick(5, 6)), 30, map[string]string{"c": k}, map[string]int{"n": pick(5, 6), "u": pick(4, 5)})
			for _, c := range []string{"min", "max"} {
				n := pick(5, 6)
				add("heap", fmt.Sprintf("%s.%s.n%d.p3", k, c, n), n*10, map[string]string{"c": k, "cmp": c}, map[string]int{"n": n, "pmax": 3, "jsonlen": pick(3, 4)})
				if !q {
					add("heap", fmt.Sprintf("%s.%s.n8.p2", k, c), 100, map[string]string{"c": k, "cmp": c}, map[string]int{"n": 8, "pmax": 2, "jsonlen": 4})
					add("heap", fmt.Sprintf("%s.%s.deep.n9.p3", k, c), 100, map[string]string{"c": k, "cmp": c}, map[string]int{"n": 9, "pmax": 3, "ids": 1, "jsonlen": 3})
				}
				// deep job: the bulk-Push heapify and sift loops only reach the third level of the
				// array with >= 9 elements (a new element at index >= 7 has its parent at index >= 3)
				dn := pick(10, 13)
				add("heap", fmt.Sprintf("%s.%s.deep.n%d.p2", k, c, dn), 60, map[string]string{"c": k, "cmp": c}, map[string]int{"n": dn, "pmax": 2, "ids": 1, "jsonlen": 3})
				// all elements tie and each has its own identity (dropped from the fingerprint): wide levels
				// (>= 16 elements on one level need >= 31) — duplicated / lost elements among ties show
				hn := pick(40, 70)
				add("heapx", fmt.Sprintf("%s.%s.flatties.n%d", k, c, hn), 50, map[string]string{"c": k, "cmp": c}, map[string]int{"n": hn, "pmax": 1})
				// many DISTINCT priorities under non-monotone histories (family.go heapChurnJob)
				add("heapchurn", fmt.Sprintf("%s.%s.churn.u%d", k, c, pick(48, 96)), 20, map[string]string{"c": k, "cmp": c}, map[string]int{"u": pick(48, 96)})
				// three mutually tied, distinguishable elements on one level need >= 6 elements with 3 ids
				add("heap", fmt.Sprintf("%s.%s.ties.n7", k, c), 40, map[string]string{"c": k, "cmp": c}, map[string]int{"n": 7, "pmax": 1, "ids": 3, "jsonlen": 3})
				// large heaps, skewed: all elements of the greatest priority except at most two smaller ones
				if k == "binaryheap" { // the priority queue has no bulk path (Enqueue takes one value)
					xn := pick(30, 70)
					add("heap", fmt.Sprintf("%s.%s.skew.n%d", k, c, xn), 80, map[string]string{"c": k, "cmp": c}, map[string]int{"n": xn, "pmax": 2, "ids": 1, "jsonlen": 2, "skew": 2})
				}
			}
		}
	case "C08":
		n := pick(5, 7)
		for _, c := range []string{"arraylist", "singlylinkedlist", "doublylinkedlist", "arraystack", "linkedliststack", "arrayqueue", "linkedlistqueue"} {
			add("iter", c, n, map[string]string{"c": c}, map[string]int{"n": n, "u": 2})
		}
		for cp := 1; cp <= pick(4, 6); cp++ {
			add("iter", fmt.Sprintf("circularbuffer%d", cp), cp, map[string]string{"c": "circularbuffer"}, map[string]int{"cap": cp, "u": 2})
		}
		add("iter", "linkedhashset", 4, map[string]string{"c": "linkedhashset"}, map[string]int{"u": pick(4, 5)})
		add("iter", "linkedhashmap", 4, map[string]string{"c": "linkedhashmap"}, map[string]int{"u": pick(4, 5)})
		add("iter", "treeset", 4, map[string]string{"c": "treeset"}, map[string]int{"n": pick(8, 11), "rank": 1})
		add("iter", "treeset.fixed", 4, map[string]string{"c": "treeset"}, map[string]int{"u": pick(4, 5)})
		add("iter", "treebidimap", 4, map[string]string{"c": "treebidimap"}, map[string]int{"u": pick(4, 5)})
		for _, c := range []string{"binaryheap", "priorityqueue"} {
			add("iter", c, n, map[string]string{"c": c}, map[string]int{"n": pick(5, 7), "pmax": 2, "jsonlen": 0})
			// three mutually tied distinguishable elements on one heap level: >= 6 elements, 3 ids
			add("iter", c+".ties", n, map[string]string{"c": c}, map[string]int{"n": pick(7, 8), "pmax": 1, "ids": 3, "jsonlen": 0})
			// all elements tie, each with its own identity: wide levels
			add("iter", c+".flatties", n, map[string]string{"c": c}, map[string]int{"n": pick(36, 66), "deep": 1, "fullpred": 3})
		}
		for _, c := range []string{"rbt", "avl", "treemap"} {
			add("iter", c, 20, map[string]string{"c": c}, map[string]int{"n": pick(8, 11), "rank": 1})
		}
		// keys that are not equal to themselves (NaN under the default comparator, which orders it first):
		// an iterator must find its way by the comparator, not by ==
		for _, c := range []string{"rbt", "avl", "treemap", "treeset"} {
			add("iter", c+".New.float64", 3, map[string]string{"c": c, "ctor": "default", "elem": "float"}, nil)
		}
		add("iter", "btree3.New.float64", 3, map[string]string{"c": "btree", "ctor": "default", "elem": "float"}, map[string]int{"m": 3})
		// B-tree iterators descend/climb through every level: height 4 first exists at 15 keys for
		// orders 3 and 4 (2*ceil(m/2)^(h-1)-1), height 3 at 17 keys for order 5
		for _, m := range []int{3, 4} {
			add("iter", fmt.Sprintf("btree%d", m), 30, map[string]string{"c": "btree"}, map[string]int{"m": m, "n": pick(16, 19), "rank": 1, "fullpred": 3})
		}
		add("iter", "btree5", 40, map[string]string{"c": "btree"}, map[string]int{"m": 5, "n": pick(18, 21), "rank": 1, "fullpred": 3})
		if !q {
			add("iter", "btree6", 40, map[string]string{"c": "btree"}, map[string]int{"m": 6, "n": 23, "rank": 1, "fullpred": 3})
		}
		// large trees: history families (family.go)
		for _, c := range []string{"rbt", "avl", "treemap", "treeset", "treebidimap"} {
			for _, cm := range []string{"nat", "rev"} {
				add("family", fmt.Sprintf("%s.%s.iterfamily.u%d", c, cm, pick(40, 72)), 10, map[string]string{"c": c, "cmp": cm, "check": "iter"}, map[string]int{"u": pick(40, 72)})
			}
		}
		for _, m := range []int{3, 4, 5, 8} {
			add("family", fmt.Sprintf("btree%d.iterfamily.u%d", m, pick(48, 80)), 10, map[string]string{"c": "btree", "cmp": "nat", "check": "iter"}, map[string]int{"u": pick(48, 80), "m": m})
		}
		// wide inner nodes (>= 9 entries per node need order >= 10; after seeded change C08-15): orders 12, 16, 32
		for _, m := range []int{12, 16, 32} {
			add("family", fmt.Sprintf("btree%d.iterfamily.u%d", m, pick(100, 160)), 10, map[string]string{"c": "btree", "cmp": "nat", "check": "iter"}, map[string]int{"u": pick(100, 160), "m": m})
		}
		rewoundJobs("all", q, add)
		treadmillJobs([]string{"rbt", "btree", "treeset", "binaryheap", "priorityqueue", "doublylinkedlist", "linkedhashmap", "linkedhashset", "treebidimap"}, add)
		tallJobs(q, add)
		largeJobs("iter", q, largeSeqLike, add)
		if !q {
			largeJobs("rewound", q, largeSeqLike, add)
		}
	case "C13":
		for _, c := range []string{"hashset", "linkedhashset", "treeset"} {
			add("setalgbig", c+".large", 5, map[string]string{"c": c}, map[string]int{"maxa": pick(40, 80)})
		}
		u := pick(3, 4)
		add("setalg", fmt.Sprintf("hashset.u%d", u), 1, map[string]string{"c": "hashset"}, map[string]int{"u": u})
		add("setalg", fmt.Sprintf("linkedhashset.u%d", u), 9, map[string]string{"c": "linkedhashset"}, map[string]int{"u": u})
		for _, c := range []string{"nat", "rev", "coarse", "ext", "big"} { // ext, big: results whose negation / product overflows
			uu := u + 1
			if c == "coarse" {
				uu = u + 2
			}
			add("setalg", fmt.Sprintf("treeset.%s.u%d", c, uu), 5, map[string]string{"c": "treeset", "cmp": c}, map[string]int{"u": uu})
		}
		treadmillJobs([]string{"hashset", "linkedhashset", "treeset"}, add)
	case "C14":
		n := pick(4, 5)
		for _, c := range []string{"arraylist", "singlylinkedlist", "doublylinkedlist"} {
			add("enum", fmt.Sprintf("%s.n%d", c, n), 10, map[string]string{"c": c}, map[string]int{"n": n, "u": 3, "maxn": n})
		}
		add("enum", fmt.Sprintf("linkedhashset.u%d", n), 5, map[string]string{"c": "linkedhashset"}, map[string]int{"u": n, "maxn": n})
		// members that are not equal to themselves (NaN): a result built by copying and deleting cannot delete them
		add("enum", "linkedhashset.float", 5, map[string]string{"c": "linkedhashset", "elem": "float"}, map[string]int{"maxn": 4})
		// large receivers (data-independent elements, fixed predicate / function families): results
		// past every growth threshold of the result container
		dn := pick(36, 70)
		for _, c := range []string{"arraylist", "singlylinkedlist", "doublylinkedlist", "linkedhashset"} {
			m := dn
			if c == "arraylist" { // its states are (length, capacity) pairs: quadratically many
				m = pick(18, 36)
			}
			add("enum", fmt.Sprintf("%s.deep.n%d", c, m), 10, map[string]string{"c": c}, map[string]int{"n": m, "deep": 1, "maxn": n})
		}
		for _, c := range []string{"nat", "rev", "coarse"} {
			add("enum", fmt.Sprintf("treeset.%s.u%d", c, n+1), 5, map[string]string{"c": "treeset", "cmp": c}, map[string]int{"u": n + 1, "maxn": n + 1})
			add("enum", fmt.Sprintf("treemap.%s.u%d", c, n), 8, map[string]string{"c": "treemap", "cmp": c}, map[string]int{"u": n, "vu": 2, "maxn": n})
		}
		add("enum", fmt.Sprintf("linkedhashmap.u%d", n), 8, map[string]string{"c": "linkedhashmap"}, map[string]int{"u": n, "vu": 2, "maxn": n})
		for _, kc := range []string{"nat", "rev", "coarse"} {
			for _, vc := range []string{"nat", "rev", "coarse"} {
				if kc != vc && kc != "nat" && vc != "nat" {
					continue
				}
				add("enum", fmt.Sprintf("treebidimap.%s.%s.u%d", kc, vc, n), 8, map[string]string{"c": "treebidimap", "cmp": kc, "vcmp": vc}, map[string]int{"u": n, "vu": pick(3, 4), "maxn": n})
			}
		}
		largeJobs("enum", q, []string{"arraylist", "singlylinkedlist", "doublylinkedlist", "linkedhashset", "linkedhashmap"}, add)
		// large tree-backed receivers: history families (family.go)
		for _, c := range []string{"treeset", "treemap", "treebidimap"} {
			for _, cm := range []string{"nat", "rev"} {
				add("family", fmt.Sprintf("%s.%s.enumfamily.u%d", c, cm, pick(40, 72)), 10, map[string]string{"c": c, "cmp": cm, "check": "enum"}, map[string]int{"u": pick(40, 72), "maxn": 4})
			}
		}
	case "C11":
		cj := jsonContainerJobs(q, pick(4, 6), pick(4, 5))
		// large containers (data-independent elements): past every growth / memoisation threshold
		dn := pick(36, 70)
		for _, c := range []string{"arraylist", "singlylinkedlist", "doublylinkedlist", "arraystack", "arrayqueue", "linkedliststack", "linkedlistqueue", "binaryheap", "priorityqueue"} {
			cj = append(cj, cjob{c + ".deep", 8, map[string]string{"c": c}, map[string]int{"n": dn, "deep": 1}})
		}
		for _, cp := range []int{8, 16} {
			cj = append(cj, cjob{fmt.Sprintf("circularbuffer%d.deep", cp), 4, map[string]string{"c": "circularbuffer"}, map[string]int{"cap": cp, "deep": 1}})
		}
		for _, jb := range cj {
			jb.p["depth"] = pick(2, 3)
			if jb.p["deep"] == 1 {
				jb.p["depth"] = 1
			}
			add("json11", jb.id, jb.w, jb.s, jb.p)
		}
		jsonFamilyJobs(q, add)
		largeJobs("roundtrip", q, append([]string{"hashset"}, largeSeqLike...), add)
	case "C12":
		cj := jsonContainerJobs(q, pick(2, 3), pick(2, 3))
		// comparators with ties between distinct JSON keys / elements (the reference is relational:
		// the fold of Put over the decoded pairs in SOME order)
		for _, el := range []string{"int", "str"} {
			for _, c := range []string{"treemap", "rbt", "avl", "treeset", "treebidimap"} {
				s := map[string]string{"c": c, "cmp": "coarsej", "elem": el}
				if c == "treebidimap" {
					cj = append(cj, cjob{c + ".coarsej.nat." + el, 2, map[string]string{"c": c, "cmp": "coarsej", "vcmp": "nat", "elem": el}, map[string]int{"u": 2, "vu": 2}})
					cj = append(cj, cjob{c + ".nat.coarsej." + el, 2, map[string]string{"c": c, "cmp": "nat", "vcmp": "coarsej", "elem": el}, map[string]int{"u": 2, "vu": 2}})
					continue
				}
				cj = append(cj, cjob{c + ".coarsej." + el, 2, s, map[string]int{"u": pick(2, 3), "vu": 2}})
			}
			cj = append(cj, cjob{"btree3.coarsej." + el, 2, map[string]string{"c": "btree", "cmp": "coarsej", "elem": el}, map[string]int{"m": 3, "u": pick(3, 4), "vu": 2}})
		}
		for _, jb := range cj {
			jb.p["depth"] = pick(2, 3)
			jb.p["prior"] = pick(2, 3)
			add("json12", jb.id, jb.w+10, jb.s, jb.p)
		}
		jsonFamilyJobs(q, add)
	case "C17":
		// the union of all alphabets and nested enumerations above, under the guards:
		// panic, bytes on fd 1/2, liveness horizon, heap ceiling, fatal-error attribution
		for _, p := range []string{"C01", "C03", "C04", "C05", "C06", "C08", "C09", "C11", "C12", "C13", "C14", "C15", "C16"} {
			for _, sj := range jobsFor(p, tier) {
				if strings.Contains(sj.ID, ".via") {
					continue // re-runs of other properties' jobs are already in this union
				}
				sj.ID = "C17.via" + sj.ID
				sj.Prop = "C17"
				if sj.Kind == "json12" {
					sj.P["twobyte"] = 1
					if q { // the loads themselves are what matters for totality: smaller prior states, one follow-up step
						sj.P["prior"], sj.P["depth"] = 1, 1
					} else {
						sj.P["prior"], sj.P["depth"] = 2, 2
					}
				}
				jobs = append(jobs, sj)
			}
		}
		add("ctorpanic", "documented-constructor-panics", 1, nil, nil)
		// iterators over a container that is modified meanwhile: still total (no panic, no endless loop)
		im := pick(3, 4)
		for _, c := range []string{"arraylist", "singlylinkedlist", "doublylinkedlist", "arraystack", "linkedliststack", "arrayqueue", "linkedlistqueue", "binaryheap", "priorityqueue"} {
			add("itermut", "itermut."+c, 5, map[string]string{"c": c}, map[string]int{"n": im, "u": 2, "pmax": 2, "jsonlen": 0})
		}
		add("itermut", "itermut.circularbuffer3", 5, map[string]string{"c": "circularbuffer"}, map[string]int{"cap": 3, "u": 2})
		for _, c := range []string{"linkedhashset", "linkedhashmap", "treeset", "treemap", "treebidimap"} {
			add("itermut", "itermut."+c, 5, map[string]string{"c": c}, map[string]int{"u": im})
		}
		for _, c := range []string{"rbt", "avl"} {
			add("itermut", "itermut."+c, 5, map[string]string{"c": c}, map[string]int{"n": pick(6, 8), "rank": 1})
		}
		for _, m := range []int{3, 4} {
			add("itermut", fmt.Sprintf("itermut.btree%d", m), 8, map[string]string{"c": "btree"}, map[string]int{"m": m, "n": pick(8, 11), "rank": 1})
		}
	case "C18":
		c18jobs := allContainerJobs(q)
		// large containers (a scratch structure shared by readers may exist only above some size: after seeded
		// change C18-14, which needs a heap of >= 192 elements): one fill history, the reader passes at sizes
		// 64, 128, 192, .. and at the bound (c18.go largeReadersJob)
		ln := pick(260, 520) // past 255: the heap level 127..254 is full, list thresholds at 256 (after seeded changes C18-15/16)
		for _, c := range []string{"binaryheap", "priorityqueue", "arraylist", "singlylinkedlist", "doublylinkedlist", "arraystack", "linkedliststack", "arrayqueue", "linkedlistqueue", "linkedhashset", "linkedhashmap", "hashset"} {
			add("largereaders", "pure."+c+".large", 30, map[string]string{"c": c}, map[string]int{"n": ln, "deep": 1, "every": 64})
			add("largereaders", "race."+c+".large", 40, map[string]string{"c": c, "binary": "race"}, map[string]int{"n": ln, "deep": 1, "every": 64, "gomaxprocs": 4, "reps": 1})
		}
		add("largereaders", "pure.circularbuffer.large", 30, map[string]string{"c": "circularbuffer"}, map[string]int{"n": ln, "cap": ln, "deep": 1, "every": 64})
		add("largereaders", "race.circularbuffer.large", 40, map[string]string{"c": "circularbuffer", "binary": "race"}, map[string]int{"n": ln, "cap": ln, "deep": 1, "every": 64, "gomaxprocs": 4, "reps": 1})
		for _, jb := range c18jobs {
			// pass 1 + 3 (plain binary)
			pp := map[string]int{}
			for k, v := range jb.p {
				pp[k] = v
			}
			pp["schedmax"] = pick(2, 3)
			add("pure", "pure."+jb.id, jb.w, jb.s, pp)
			// pass 2 (-race binary, free-running)
			rs := map[string]string{"binary": "race"}
			for k, v := range jb.s {
				rs[k] = v
			}
			rp := map[string]int{"gomaxprocs": 4, "reps": pick(1, 3), "third": pick(0, 1)}
			for k, v := range jb.p {
				rp[k] = v
			}
			// the pair enumeration is quadratic in the readers: keep the race-pass states small
			if _, ok := rp["n"]; ok {
				rp["n"] = pick(3, 4)
			}
			if rp["rank"] == 1 {
				rp["n"] = pick(5, 7)
			} else if _, ok := rp["u"]; ok && jb.s["c"] != "arraylist" && jb.s["c"] != "singlylinkedlist" && jb.s["c"] != "doublylinkedlist" && rp["u"] > 3 {
				rp["u"] = pick(3, 4)
			}
			add("race", "race."+jb.id, jb.w+20, rs, rp)
		}
		// readers that live in other nested enumerations carry C18-tagged oracles too
		for _, p := range []string{"C08", "C13", "C14", "C16"} {
			for _, sj := range jobsFor(p, tier) {
				sj.ID = "C18.via" + sj.ID
				sj.Prop = "C18"
				jobs = append(jobs, sj)
			}
		}
	case "C15":
		for _, jb := range allContainerJobs(q) {
			jb.p["depth"] = pick(1, 2)
			if c := jb.s["c"]; !q && (c == "arraylist" || c == "singlylinkedlist" || c == "doublylinkedlist") {
				jb.p["n"] = 5 // the list alphabet is ~200 operations per state; depth-2 differential stays affordable
			}
			add("c15", jb.id, jb.w, jb.s, jb.p)
		}
		// the C15 invariants are part of every box's state oracle: the family searches of the
		// other properties (with their own, larger bounds) are re-run with the C15 oracle
		for _, p := range []string{"C01", "C03", "C04", "C05", "C06", "C12"} {
			for _, sj := range jobsFor(p, tier) {
				sj.ID = "C15.via" + sj.ID
				sj.Prop = "C15"
				if sj.Kind == "json12" { // states reachable only through FromJSON (trimmed: small prior states)
					sj.P["prior"], sj.P["depth"] = 1, 1
					if !q {
						sj.P["prior"], sj.P["depth"] = 2, 1
					}
				}
				jobs = append(jobs, sj)
			}
		}
	case "C16":
		for _, jb := range allContainerJobs(q) {
			add("snap", jb.id, jb.w, jb.s, jb.p)
		}
		largeJobs("snap", q, append([]string{"hashset"}, largeSeqLike...), add)
		// snapshots past 1024 elements (a memo or an adopted buffer may exist only for long containers; after C16-16)
		for _, c := range []string{"arraylist", "doublylinkedlist", "singlylinkedlist", "linkedhashset", "linkedhashmap", "arrayqueue"} {
			add("largestates", "snap."+c+".xl", 60, map[string]string{"c": c, "check": "snap"}, map[string]int{"n": pick(1300, 2600), "deep": 1, "every": 650})
		}
	case "C09":
		u := pick(5, 6)
		add("linked", fmt.Sprintf("linkedhashmap.u%d", u), 2, map[string]string{"c": "linkedhashmap"}, map[string]int{"u": u})
		add("linked", fmt.Sprintf("linkedhashset.u%d", u), 3, map[string]string{"c": "linkedhashset"}, map[string]int{"u": u})
		// deep: fresh keys / members dropped from the fingerprint (state = size), positions {0,1,mid,n-2,n-1};
		// removal in the back half of the order list needs >= 7 entries, long Remove argument lists
		dn := pick(24, 48)
		add("linkeddeep", fmt.Sprintf("linkedhashmap.deep.n%d", dn), 3, map[string]string{"c": "linkedhashmap"}, map[string]int{"n": dn, "deep": 1})
		add("linkeddeep", fmt.Sprintf("linkedhashset.deep.n%d", dn), 3, map[string]string{"c": "linkedhashset"}, map[string]int{"n": dn, "deep": 1})
		rewoundJobs("linked", q, add)
		add("anysys", "linkedhashset.float", 1, map[string]string{"c": "linkedhashset", "elem": "float"}, nil)
		treadmillJobs([]string{"linkedhashmap", "linkedhashset"}, add)
		xlJobs(q, []string{"linkedhashmap", "linkedhashset"}, add)
	case "C05":
		n := pick(5, 7)
		for _, k := range []string{"arraystack", "linkedliststack", "arrayqueue", "linkedlistqueue"} {
			add("seq", k, n, map[string]string{"c": k}, map[string]int{"n": n, "u": 3})
			add("seq", k+".struct", 4, map[string]string{"c": k, "elem": "struct"}, map[string]int{"n": 4})
		}
		add("seq", "ring3.struct", 4, map[string]string{"c": "circularbuffer", "elem": "struct"}, map[string]int{"cap": 3})
		for c := 1; c <= pick(4, 6); c++ {
			add("seq", fmt.Sprintf("ring%d", c), c, map[string]string{"c": "circularbuffer"}, map[string]int{"cap": c, "u": 2})
		}
		// deep, data-independent jobs: fresh values dropped from the fingerprint
		// (70 / 140: the array behind ArrayStack / ArrayQueue reaches capacity 126 / 254 — a Clear at that
		// capacity followed by a short refill and a removal is in the alphabet; after seeded change C05-14)
		dn := pick(70, 140)
		for _, k := range []string{"arraystack", "linkedliststack", "arrayqueue", "linkedlistqueue"} {
			add("seq", fmt.Sprintf("%s.deep.n%d", k, dn), 3, map[string]string{"c": k}, map[string]int{"n": dn, "deep": 1})
		}
		// ring capacities around powers of two and between them (33, 40, 65: a ring that allocates lazily in
		// chunks is clamped by such a capacity; after seeded change C05-13): every (start, size) offset
		rings := []int{7, 8, 16, 17, 33, 40, 65}
		if !q {
			rings = append(rings, 100, 129)
		}
		for _, c := range rings {
			add("seq", fmt.Sprintf("ring%d.deep", c), 3, map[string]string{"c": "circularbuffer"}, map[string]int{"cap": c, "deep": 1})
		}
		typedJobs("seqs", add)
		xlJobs(q, []string{"arraystack", "linkedliststack", "arrayqueue", "linkedlistqueue", "circularbuffer"}, add)
		treadmillJobs([]string{"arrayqueue", "linkedlistqueue", "circularbuffer"}, add)
	}
	return jobs
}

// jsonFamilyJobs: loaded comparator trees of every size up to a bound as start states (jsoncheck.go)
func jsonFamilyJobs(q bool, add func(kind, id string, w int, s map[string]string, p map[string]int)) {
	pick := func(a, b int) int {
		if q {
			return a
		}
		return b
	}
	for _, t := range []struct {
		c string
		m int
	}{{"rbt", 0}, {"avl", 0}, {"treemap", 0}, {"treebidimap", 0}, {"btree", 3}, {"btree", 4}, {"btree", 5}} {
		id := t.c
		if t.m > 0 {
			id = fmt.Sprintf("%s%d", t.c, t.m)
		}
		maxn, deepn := pick(33, 64), pick(10, 16)
		if t.c == "treebidimap" { // every (key, value) pair is a Put: quadratically many operations per level
			maxn, deepn = pick(12, 20), pick(3, 4)
		}
		add("jsonfamily", id+".jsonfamily", 20, map[string]string{"c": t.c}, map[string]int{"m": t.m, "maxn": maxn, "deepn": deepn})
	}
}

// typedJobs: every container kind of the given group instantiated with sized / unsigned integer
// element and key types at their limits (typed.go); plain searches under the family oracles.
func typedJobs(group string, add func(kind, id string, w int, s map[string]string, p map[string]int)) {
	els := []string{"i8", "i64", "u64"}
	if group == "trees" || group == "hashmaps" || group == "bidi" {
		els = append(els, "u8", "sk")
	}
	for _, el := range els {
		switch group {
		case "trees":
			if el == "i8" {
				for _, c := range []string{"rbt", "avl", "treemap", "btree", "treeset"} {
					add("anysys", c+".fzero", 3, map[string]string{"c": c, "elem": "fzero"}, map[string]int{"m": 3})
				}
				for _, c := range []string{"rbt", "avl", "treemap", "btree"} {
					add("anysys", c+".time", 3, map[string]string{"c": c, "elem": "time"}, map[string]int{"u": 5, "m": 3})
				}
			}
			for _, c := range []string{"rbt", "avl", "treemap", "btree"} {
				add("anysys", fmt.Sprintf("%s.New.%s", c, el), 3, map[string]string{"c": c, "ctor": "default", "elem": el}, map[string]int{"u": 5, "m": 3})
			}
			add("anysys", "rbt.rev."+el, 3, map[string]string{"c": "rbt", "cmp": "rev", "elem": el}, map[string]int{"u": 5})
			add("anysys", "btree4.coarse."+el, 3, map[string]string{"c": "btree", "cmp": "coarse", "elem": el}, map[string]int{"u": 5, "m": 4})
		case "hashmaps":
			if el == "i8" {
				for _, c := range []string{"treemap", "rbt", "avl", "btree"} {
					add("anysys", c+".pstr", 3, map[string]string{"c": c, "elem": "pstr"}, map[string]int{"u": 3, "m": 3})
				}
			}
			for _, c := range []string{"hashmap", "linkedhashmap"} {
				add("anysys", c+"."+el, 3, map[string]string{"c": c, "elem": el}, map[string]int{"u": 4})
			}
		case "bidi":
			if el == "i8" { // once: time.Time keys and values under the library's own utils.TimeComparator
				add("anysys", "treebidimap.fzero", 3, map[string]string{"c": "treebidimap", "elem": "fzero"}, nil)
				add("anysys", "treebidimap.time", 3, map[string]string{"c": "treebidimap", "elem": "time"}, map[string]int{"u": 4})
			}
			add("anysys", "treebidimap.New."+el, 3, map[string]string{"c": "treebidimap", "ctor": "default", "elem": el}, map[string]int{"u": 3})
			add("anysys", "treebidimap.rev.coarse."+el, 3, map[string]string{"c": "treebidimap", "cmp": "rev", "vcmp": "coarse", "elem": el}, map[string]int{"u": 3, "vu": 4})
			add("anysys", "hashbidimap."+el, 3, map[string]string{"c": "hashbidimap", "elem": el}, map[string]int{"u": 3})
		case "lists":
			if el == "i8" { // pointer elements with a String() method, a typed nil among them
				for _, c := range []string{"arraylist", "singlylinkedlist", "doublylinkedlist"} {
					add("anysys", c+".pstr", 5, map[string]string{"c": c, "elem": "pstr"}, map[string]int{"n": 3, "u": 3})
				}
			}
			for _, c := range []string{"arraylist", "singlylinkedlist", "doublylinkedlist"} {
				add("anysys", c+"."+el, 5, map[string]string{"c": c, "elem": el}, map[string]int{"n": 4, "u": 3, "jsonops": 1})
			}
		case "sets":
			if el == "i8" {
				for _, c := range []string{"treeset"} { // (the fingerprint does not support pointers inside Go maps)
					add("anysys", c+".pstr", 3, map[string]string{"c": c, "elem": "pstr"}, map[string]int{"u": 3})
				}
			}
			for _, c := range []string{"hashset", "linkedhashset"} {
				add("anysys", c+"."+el, 3, map[string]string{"c": c, "elem": el}, map[string]int{"u": 4})
			}
			if el == "i8" {
				add("anysys", "treeset.time", 3, map[string]string{"c": "treeset", "elem": "time"}, map[string]int{"u": 5})
			}
			add("anysys", "treeset.New."+el, 3, map[string]string{"c": "treeset", "ctor": "default", "elem": el}, map[string]int{"u": 5})
			add("anysys", "treeset.rev."+el, 3, map[string]string{"c": "treeset", "cmp": "rev", "elem": el}, map[string]int{"u": 4})
		case "seqs":
			if el == "i8" {
				for _, c := range []string{"arraystack", "linkedliststack", "arrayqueue", "linkedlistqueue", "circularbuffer"} {
					add("anysys", c+".pstr", 3, map[string]string{"c": c, "elem": "pstr"}, map[string]int{"n": 3, "u": 3, "cap": 2})
				}
			}
			for _, c := range []string{"arraystack", "linkedliststack", "arrayqueue", "linkedlistqueue"} {
				add("anysys", c+"."+el, 3, map[string]string{"c": c, "elem": el}, map[string]int{"n": 4, "u": 3, "jsonops": 1})
			}
			add("anysys", "ring3."+el, 3, map[string]string{"c": "circularbuffer", "elem": el}, map[string]int{"cap": 3, "u": 3, "jsonops": 1})
		case "heaps":
			if el == "i8" {
				for _, c := range []string{"binaryheap", "priorityqueue"} {
					add("anysys", c+".pstr", 3, map[string]string{"c": c, "elem": "pstr"}, map[string]int{"n": 4, "u": 3})
				}
			}
			for _, c := range []string{"binaryheap", "priorityqueue"} {
				add("anysys", c+".New."+el, 3, map[string]string{"c": c, "ctor": "default", "elem": el}, map[string]int{"n": 5, "u": 4})
				add("anysys", c+".max."+el, 3, map[string]string{"c": c, "cmp": "rev", "elem": el}, map[string]int{"n": 5, "u": 4})
			}
		}
	}
}

// rewoundJobs: iterators kept across a modification and re-positioned afterwards (linked.go
// rewoundIteratorCheck); group "heaps" (C06), "linked" (C09) or "all" (C08).
func rewoundJobs(group string, q bool, add func(kind, id string, w int, s map[string]string, p map[string]int)) {
	pick := func(a, b int) int {
		if q {
			return a
		}
		return b
	}
	n := pick(3, 4)
	if group == "heaps" || group == "all" {
		for _, c := range []string{"binaryheap", "priorityqueue"} {
			add("rewound", "rewound."+c, 5, map[string]string{"c": c}, map[string]int{"n": n + 1, "pmax": 2, "jsonlen": 2, "pairs": 2})
			add("rewound", "rewound."+c+".str", 5, map[string]string{"c": c, "elem": "str"}, map[string]int{"n": n, "u": 3, "jsonlen": 2, "pairs": 2})
		}
	}
	if group == "linked" || group == "all" {
		for _, c := range []string{"linkedhashset", "linkedhashmap"} {
			add("rewound", "rewound."+c, 5, map[string]string{"c": c}, map[string]int{"u": n, "jsonops": 1, "pairs": 2})
		}
	}
	if group == "all" {
		for _, c := range []string{"arraylist", "singlylinkedlist", "doublylinkedlist", "arraystack", "linkedliststack", "arrayqueue", "linkedlistqueue"} {
			add("rewound", "rewound."+c, 5, map[string]string{"c": c}, map[string]int{"n": n, "u": 2, "jsonops": 1, "pairs": 1})
		}
		add("rewound", "rewound.circularbuffer3", 5, map[string]string{"c": "circularbuffer"}, map[string]int{"cap": 3, "u": 2, "jsonops": 1, "pairs": 2})
		for _, c := range []string{"treeset", "treemap", "treebidimap"} {
			add("rewound", "rewound."+c, 5, map[string]string{"c": c}, map[string]int{"u": n, "pairs": 2})
		}
		for _, c := range []string{"rbt", "avl"} {
			add("rewound", "rewound."+c, 5, map[string]string{"c": c}, map[string]int{"n": pick(5, 7), "rank": 1, "pairs": 2})
		}
		add("rewound", "rewound.btree3", 8, map[string]string{"c": "btree"}, map[string]int{"m": 3, "n": pick(7, 9), "rank": 1, "pairs": 2})
	}
}

// largeJobs: the nested enumeration `check` of a property at sizes 64, 128, 192, .. of large containers (c18.go largeStatesJob)
func largeJobs(check string, q bool, cs []string, add func(kind, id string, w int, s map[string]string, p map[string]int)) {
	ln := 260
	if !q {
		ln = 520
	}
	for _, c := range cs {
		p := map[string]int{"n": ln, "deep": 1, "every": 64}
		if check == "enum" {
			p["n"], p["every"] = 300, 100 // past 256 elements in the quick tier as well (after seeded change C14-16)
			if !q {
				p["n"] = 600
			}
		}
		if (c == "binaryheap" || c == "priorityqueue") && (check == "iter" || check == "rewound") {
			p["n"] = ln * 13 / 20 // heap iterators cost O(level width) per element: 130 / 195 (a level of 64 and the one after it)
		}
		if c == "circularbuffer" {
			p["cap"] = p["n"]
		}
		add("largestates", check+"."+c+".large", 30, map[string]string{"c": c, "check": check}, p)
	}
}

// xlJobs: ONE fill-and-drain history to 1300 / 4500 elements (thresholds at 1024, thorough 4096 elements; the drain
// crosses every shrink point), the family's transition oracle on every step, the complete state oracle
// at the multiples of 256 (c18.go largeStatesJob, check "state").  After the tenth wave of seeded changes.
func xlJobs(q bool, cs []string, add func(kind, id string, w int, s map[string]string, p map[string]int)) {
	for _, c := range cs {
		n := 1300
		switch c { // these cost little per step: the 4096 thresholds are inside the quick bound as well
		case "arraystack", "linkedliststack", "arrayqueue", "linkedlistqueue", "circularbuffer":
			n = 4500
		}
		if !q {
			n = 4500
		}
		p := map[string]int{"n": n, "deep": 1, "every": 256}
		if c == "circularbuffer" {
			p["cap"] = n
		}
		add("largestates", "state."+c+".xl", 60, map[string]string{"c": c, "check": "state"}, p)
	}
}

var largeSeqLike = []string{"arraylist", "singlylinkedlist", "doublylinkedlist", "arraystack", "linkedliststack", "arrayqueue", "linkedlistqueue", "circularbuffer", "binaryheap", "priorityqueue", "linkedhashset", "linkedhashmap"}

// treadmillJobs: constant-size containers with long unobserved stretches between observations (treadmill.go)
func treadmillJobs(cs []string, add func(kind, id string, w int, s map[string]string, p map[string]int)) {
	for _, c := range cs {
		switch c {
		case "btree":
			for _, m := range []int{3, 8} {
				add("treadmill", fmt.Sprintf("treadmill.btree%d", m), 20, map[string]string{"c": c}, map[string]int{"m": m, "w": 9})
			}
		case "rbt":
			add("treadmill", "treadmill.rbt", 20, map[string]string{"c": c}, map[string]int{"w": 10})
			add("treadmill", "treadmill.rbt.rev", 20, map[string]string{"c": c, "cmp": "rev"}, map[string]int{"w": 5})
		case "arraylist", "singlylinkedlist", "doublylinkedlist":
			add("treadmill", "treadmill."+c, 20, map[string]string{"c": c}, map[string]int{"w": 6})
			add("treadmill", "treadmill."+c+".lifo", 20, map[string]string{"c": c}, map[string]int{"w": 6, "lifo": 1})
		case "treebidimap", "hashbidimap":
			add("treadmill", "treadmill."+c, 20, map[string]string{"c": c}, map[string]int{"w": 6})
			add("treadmill", "treadmill."+c+".revalue", 20, map[string]string{"c": c}, map[string]int{"w": 6, "revalue": 1})
		default:
			add("treadmill", "treadmill."+c, 20, map[string]string{"c": c}, map[string]int{"w": 6})
		}
	}
}

type cjob struct {
	id string
	w  int
	s  map[string]string
	p  map[string]int
}

// allContainerJobs: one bounded state search per container kind and configuration,
// shared by the "all 21 containers" properties (C11, C12, C15, C16, C17, C18).
func allContainerJobs(q bool) []cjob {
	pick := func(a, b int) int {
		if q {
			return a
		}
		return b
	}
	n := pick(4, 6)
	var js []cjob
	for _, c := range []string{"arraylist", "singlylinkedlist", "doublylinkedlist"} {
		js = append(js, cjob{c, 6, map[string]string{"c": c}, map[string]int{"n": n, "u": 2}})
	}
	for _, c := range []string{"arraystack", "linkedliststack", "arrayqueue", "linkedlistqueue"} {
		js = append(js, cjob{c, 2, map[string]string{"c": c}, map[string]int{"n": n, "u": 2}})
	}
	for cp := 1; cp <= pick(3, 5); cp++ {
		js = append(js, cjob{fmt.Sprintf("circularbuffer%d", cp), 1, map[string]string{"c": "circularbuffer"}, map[string]int{"cap": cp, "u": 2}})
	}
	for _, c := range []string{"binaryheap", "priorityqueue"} {
		js = append(js, cjob{c, 3, map[string]string{"c": c}, map[string]int{"n": n, "pmax": 2, "jsonlen": 2}})
	}
	// deep, data-independent configurations: sizes past every growth / memoisation threshold
	dn := pick(36, 70)
	for _, c := range []string{"arraylist", "singlylinkedlist", "doublylinkedlist", "arraystack", "arrayqueue", "linkedliststack", "linkedlistqueue", "binaryheap", "priorityqueue"} {
		js = append(js, cjob{c + ".deep", 8, map[string]string{"c": c}, map[string]int{"n": dn, "deep": 1}})
	}
	js = append(js, cjob{"circularbuffer16.deep", 4, map[string]string{"c": "circularbuffer"}, map[string]int{"cap": 16, "deep": 1}})
	for _, c := range []string{"linkedhashset", "linkedhashmap"} {
		js = append(js, cjob{c + ".deep", 3, map[string]string{"c": c}, map[string]int{"n": pick(20, 40), "deep": 1}})
	}
	for _, c := range []string{"hashset", "linkedhashset"} {
		js = append(js, cjob{c + ".float", 1, map[string]string{"c": c, "elem": "float"}, map[string]int{}})
	}
	js = append(js, cjob{"hashset", 1, map[string]string{"c": "hashset"}, map[string]int{"u": n}})
	js = append(js, cjob{"linkedhashset", 2, map[string]string{"c": "linkedhashset"}, map[string]int{"u": n}})
	js = append(js, cjob{"treeset", 2, map[string]string{"c": "treeset"}, map[string]int{"u": n}})
	js = append(js, cjob{"hashmap", 1, map[string]string{"c": "hashmap"}, map[string]int{"u": n}})
	js = append(js, cjob{"linkedhashmap", 2, map[string]string{"c": "linkedhashmap"}, map[string]int{"u": n}})
	js = append(js, cjob{"treemap", 2, map[string]string{"c": "treemap"}, map[string]int{"u": n + 1}})
	js = append(js, cjob{"hashbidimap", 1, map[string]string{"c": "hashbidimap"}, map[string]int{"u": pick(3, 4)}})
	js = append(js, cjob{"treebidimap", 2, map[string]string{"c": "treebidimap"}, map[string]int{"u": pick(3, 4)}})
	for i := range js {
		switch js[i].s["c"] {
		case "arraylist", "singlylinkedlist", "doublylinkedlist", "arraystack", "linkedliststack", "arrayqueue", "linkedlistqueue", "circularbuffer",
			"hashmap", "linkedhashmap", "treemap", "hashbidimap", "treebidimap":
			if js[i].p["deep"] != 1 && js[i].s["elem"] == "" {
				js[i].p["jsonops"] = 1 // FromJSON of a few texts (null entries, repeated values) as operations
			}
		}
	}
	tn := pick(7, 10)
	js = append(js, cjob{"rbt", 5, map[string]string{"c": "rbt"}, map[string]int{"n": tn, "rank": 1}})
	js = append(js, cjob{"avl", 5, map[string]string{"c": "avl"}, map[string]int{"n": tn, "rank": 1}})
	for _, m := range []int{3, 4, 5} {
		js = append(js, cjob{fmt.Sprintf("btree%d", m), 5, map[string]string{"c": "btree"}, map[string]int{"m": m, "n": tn + 1, "rank": 1}})
	}
	return js
}

// jsonContainerJobs: all 21 containers with JSON-representable element types
// (int and string elements / keys / values), every ring capacity 1..4, B-tree orders 3..6.
// n: size bound for sequence-like containers, u: universe for sets/maps.
func jsonContainerJobs(q bool, n, u int) []cjob {
	var js []cjob
	addj := func(id string, w int, s map[string]string, p map[string]int) {
		for _, el := range []string{"int", "str"} {
			ss := map[string]string{"elem": el, "strset": "json", "intset": "json"}
			for k, v := range s {
				ss[k] = v
			}
			pp := map[string]int{}
			for k, v := range p {
				pp[k] = v
			}
			js = append(js, cjob{id + "." + el, w, ss, pp})
		}
	}
	for _, c := range []string{"arraylist", "singlylinkedlist", "doublylinkedlist"} {
		addj(c, 6, map[string]string{"c": c}, map[string]int{"n": n, "u": 2})
	}
	for _, c := range []string{"arraystack", "linkedliststack", "arrayqueue", "linkedlistqueue"} {
		addj(c, 2, map[string]string{"c": c}, map[string]int{"n": n, "u": 2})
	}
	for cp := 1; cp <= 4; cp++ {
		addj(fmt.Sprintf("circularbuffer%d", cp), 1, map[string]string{"c": "circularbuffer"}, map[string]int{"cap": cp, "u": 2})
	}
	for _, c := range []string{"binaryheap", "priorityqueue"} {
		addj(c, 3, map[string]string{"c": c}, map[string]int{"n": n, "u": 3, "jsonlen": 2})
		js = append(js, cjob{c + ".struct", 3, map[string]string{"c": c}, map[string]int{"n": n, "pmax": 2, "jsonlen": 2}})
	}
	for _, c := range []string{"hashset", "linkedhashset", "treeset", "hashmap", "linkedhashmap", "treemap", "rbt", "avl"} {
		addj(c, 2, map[string]string{"c": c}, map[string]int{"u": u, "vu": 2})
	}
	for _, c := range []string{"treeset", "treemap", "rbt"} {
		addj(c+".rev", 2, map[string]string{"c": c, "cmp": "rev"}, map[string]int{"u": u, "vu": 2})
	}
	for _, c := range []string{"hashbidimap", "treebidimap"} {
		addj(c, 2, map[string]string{"c": c}, map[string]int{"u": u - 1, "vu": u - 1})
	}
	// elements / values whose JSON form omits zero fields (anysys.go OV)
	for _, c := range []string{"arraylist", "doublylinkedlist", "arraystack", "linkedlistqueue", "binaryheap", "hashset", "linkedhashset", "treeset",
		"hashmap", "linkedhashmap", "treemap", "rbt", "avl", "hashbidimap", "treebidimap"} {
		js = append(js, cjob{c + ".ov", 2, map[string]string{"c": c, "elem": "ov"}, map[string]int{"n": min(n, 3), "u": 3, "vu": 3}})
	}
	js = append(js, cjob{"circularbuffer2.ov", 2, map[string]string{"c": "circularbuffer", "elem": "ov"}, map[string]int{"cap": 2, "u": 3}})
	// sized / unsigned integer types at their limits, and an integer key type with a String() method (typed.go);
	// uint8 and SK as map keys only
	for _, el := range []string{"i8", "i64", "u64", "u8", "sk"} {
		for _, c := range []string{"hashmap", "linkedhashmap", "treemap", "rbt", "avl", "hashbidimap", "treebidimap"} {
			js = append(js, cjob{c + "." + el, 2, map[string]string{"c": c, "elem": el}, map[string]int{"u": min(u, 4), "vu": 2}})
		}
		js = append(js, cjob{"btree3." + el, 2, map[string]string{"c": "btree", "elem": el}, map[string]int{"m": 3, "u": min(u, 4)}})
		if el == "u8" || el == "sk" {
			continue
		}
		for _, c := range []string{"arraylist", "linkedlistqueue", "binaryheap", "hashset", "linkedhashset", "treeset"} {
			js = append(js, cjob{c + "." + el, 2, map[string]string{"c": c, "elem": el}, map[string]int{"n": min(n, 3), "u": 3, "jsonlen": 2}})
		}
		js = append(js, cjob{"circularbuffer2." + el, 2, map[string]string{"c": "circularbuffer", "elem": el}, map[string]int{"cap": 2, "u": 3}})
	}
	js = append(js, cjob{"btree3.ov", 2, map[string]string{"c": "btree", "elem": "ov"}, map[string]int{"m": 3, "u": 3, "vu": 3}})
	for m := 3; m <= 6; m++ {
		bu := u + 2
		if bu > 4 && !q && n <= 3 {
			bu = 4 // C12 thorough: every prior state meets ~120 k loads; five keys would make one job the straggler
		}
		addj(fmt.Sprintf("btree%d", m), 40, map[string]string{"c": "btree"}, map[string]int{"m": m, "u": bu, "vu": 2})
	}
	return js
}

// defaultCtorJobs: the default constructors New[K cmp.Ordered]() (every other job uses NewWith).
func defaultCtorJobs(prop string, q bool, add func(kind, id string, w int, s map[string]string, p map[string]int)) {
	u := 7
	if !q {
		u = 9
	}
	for _, c := range []string{"rbt", "avl", "treemap"} {
		add("kv", fmt.Sprintf("%s.New.u%d", c, u), u, map[string]string{"c": c, "ctor": "default"}, map[string]int{"u": u})
	}
	for _, m := range []int{3, 5} {
		add("kv", fmt.Sprintf("btree%d.New.u%d", m, u), u, map[string]string{"c": "btree", "ctor": "default"}, map[string]int{"u": u, "m": m})
	}
	// float64 keys with NaN, -Inf/+Inf through the default constructors (cmp.Compare orders NaN first)
	for _, c := range []string{"rbt", "avl", "treemap", "treeset"} {
		add("kv", c+".New.float64", 3, map[string]string{"c": c, "ctor": "default", "elem": "float"}, nil)
	}
	add("kv", "btree3.New.float64", 3, map[string]string{"c": "btree", "ctor": "default", "elem": "float"}, map[string]int{"m": 3})
}

func bidiJobs(prop string, q bool, add func(kind, id string, w int, s map[string]string, p map[string]int)) {
	u := 3
	if !q {
		u = 4
	}
	add("kv", fmt.Sprintf("treebidimap.New.u%d", u), u, map[string]string{"c": "treebidimap", "ctor": "default"}, map[string]int{"u": u})
	// HashBidiMap: every partial injection keys x values over the universe (zero value included)
	add("kv", fmt.Sprintf("hashbidimap.u%d", u), u, map[string]string{"c": "hashbidimap"}, map[string]int{"u": u, "jsonops": 1})
	// history families at a size where the underlying trees go through every deletion case
	fu := 16
	if !q {
		fu = 28
	}
	add("kvfamily", fmt.Sprintf("treebidimap.family.u%d", fu), fu*fu, map[string]string{"c": "treebidimap"}, map[string]int{"u": fu})
	add("kvfamily", fmt.Sprintf("hashbidimap.family.u%d", fu), fu, map[string]string{"c": "hashbidimap"}, map[string]int{"u": fu})
	cu := 72 // above 64: a structure that re-organises itself after shrinking from a peak needs a peak
	if !q {
		cu = 136
	}
	for _, c := range []string{"nat", "rev"} {
		add("churn", fmt.Sprintf("treebidimap.%s.churn.u%d", c, cu), cu*4, map[string]string{"c": "treebidimap", "cmp": c, "vcmp": c}, map[string]int{"u": cu})
	}
	add("churn", fmt.Sprintf("hashbidimap.churn.u%d", cu), cu*4, map[string]string{"c": "hashbidimap"}, map[string]int{"u": cu})
	for _, kc := range []string{"nat", "rev", "coarse"} {
		for _, vc := range []string{"nat", "rev", "coarse"} {
			uu := u
			if kc == "coarse" || vc == "coarse" {
				uu = u + 2 // coarse classes {0,1},{2,3},{4}: three classes (a node with two children) need five values
			}
			add("kv", fmt.Sprintf("treebidimap.%s.%s.u%d", kc, vc, uu), uu, map[string]string{"c": "treebidimap", "cmp": kc, "vcmp": vc}, map[string]int{"u": uu})
		}
	}
}

func assumptionsFor(prop string) []string {
	base := []string{
		"bounded: at most N live elements, small value universes (bounds per job in coverage.jobs)",
		"state deduplication by canonical heap fingerprint: the library is deterministic and address-independent, so equal fingerprints have equal futures (DESIGN.md §2.2)",
		"Go toolchain, reflect and encoding/json are trusted",
	}
	return base
}

func explanationFor(prop string) string {
	return "explicit-state breadth-first search over the real containers to a fixpoint under a live-size bound; every transition is a real API call replayed from the constructor on a fresh object and compared with a reference model; nested per-state enumerations are listed under 'nested' (DESIGN.md §4 " + prop + ")"
}

func intListSys(kind string, n, u int) *ListSys[int] {
	return &ListSys[int]{Kind: kind, U: intU(u), Absent: u + 1, Poison: -99, N: n,
		Cmps: map[string]func(a, b int) int{"nat": intCmp("nat"), "rev": intCmp("rev"), "coarse": intCmp("coarse")}}
}

// struct elements: encoding/json MERGES into an existing struct (omitted fields keep their old
// value) and skips null, so a decode into reused storage shows only with such elements
var heJSONTexts = []string{`[]`, `[null]`, `[{"P":1}]`, `[{"ID":1},{"P":2}]`, `[{},{"P":1,"ID":1}]`, `[{"P":2,"ID":1},null,{}]`}

func heListSys(kind string, n int) *ListSys[HE] {
	byP := func(a, b HE) int { return a.P - b.P }
	nat := func(a, b HE) int {
		if a.P != b.P {
			return a.P - b.P
		}
		return a.ID - b.ID
	}
	return &ListSys[HE]{Kind: kind, U: []HE{{0, 0}, {1, 1}, {2, 0}}, Absent: HE{7, 7}, Poison: HE{-99, -99}, N: n,
		Cmps:      map[string]func(a, b HE) int{"nat": nat, "rev": func(a, b HE) int { return nat(b, a) }, "coarse": byP},
		JSONTexts: heJSONTexts}
}

func intSetSys(kind, cmpN string, u int) *SetSys[int] {
	return &SetSys[int]{Kind: kind, CmpN: cmpN, U: intU(u), Absent: u + 2, Poison: -99, Cmp: intCmp(cmpN), Tuples: defaultSetTuples(u)}
}

func init() {
	jobKinds["set"] = func(j Job, r *JobResult) {
		s := intSetSys(j.s("c", ""), j.s("cmp", "nat"), j.p("u", 4))
		if j.s("ctor", "") == "default" {
			s.Label = "/New()"
			s.Cmp = intCmp("nat")
			s.Custom = func(vals ...int) *setAPI[int] { return wrapTreeSet(treeset.New[int](vals...)) }
		}
		exploreJob(j, r, s, nil)
	}
	// BinaryHeap.New / PriorityQueue.New (default min-order constructors), plain int elements
	jobKinds["heapnew"] = func(j Job, r *JobResult) {
		s := scalarHeapSys[int](j.s("c", ""), "min", j.p("n", 6), intU(j.p("u", 3)), -99, 3)
		s.Label = "/New()"
		if s.Kind == "binaryheap" {
			s.Custom = func(b *heapBox[int]) { b.a = wrapHeap(binaryheap.New[int]()) }
		} else {
			s.Custom = func(b *heapBox[int]) { b.a = wrapPQ(priorityqueue.New[int]()) }
		}
		exploreJob(j, r, s, func(e *Explorer) {
			e.OnState = func(path []Op, build func() Inst, st *Stats) *Viol {
				st.Nested["drains"]++
				return build().(*heapBox[int]).drain()
			}
		})
	}
	// the default comparator must be a strict weak order on the WHOLE element type: float64 with NaN
	// (cmp.Compare orders NaN before every number), infinities and the two zeros
	jobKinds["heapnewf"] = func(j Job, r *JobResult) {
		s := scalarHeapSys[float64](j.s("c", ""), "min", j.p("n", 5), []float64{math.NaN(), 1, 2, 5, math.Inf(-1)}[:j.p("u", 4)], -99, 0)
		s.Label = "/New()/float64"
		if s.Kind == "binaryheap" {
			s.Custom = func(b *heapBox[float64]) { b.a = wrapHeap(binaryheap.New[float64]()) }
		} else {
			s.Custom = func(b *heapBox[float64]) { b.a = wrapPQ(priorityqueue.New[float64]()) }
		}
		exploreJob(j, r, s, func(e *Explorer) {
			e.OnState = func(path []Op, build func() Inst, st *Stats) *Viol {
				st.Nested["drains"]++
				return build().(*heapBox[float64]).drain()
			}
		})
	}
	jobKinds["heap"] = func(j Job, r *JobResult) {
		s := heSysIDs(j.s("c", ""), j.s("cmp", "min"), j.p("n", 5), j.p("pmax", 3), j.p("jsonlen", 3), j.p("ids", 2))
		s.Skew = j.p("skew", 0)
		if s.Skew == 0 && j.p("ids", 2) == 2 {
			// inputs with null entries and omitted fields (decoded over whatever the backing array held)
			s.JSONTexts = []string{`[null]`, `[null,{"P":1,"ID":1}]`, `[{"P":1},null,{"ID":1}]`, `[{"ID":1},{"P":2}]`}
		}
		exploreJob(j, r, s, func(e *Explorer) {
			e.OnState = func(path []Op, build func() Inst, st *Stats) *Viol {
				st.Nested["drains"]++
				return build().(*heapBox[HE]).drain()
			}
		})
	}
	// iterators kept across a modification and re-positioned afterwards (linked.go)
	jobKinds["rewound"] = func(j Job, r *JobResult) {
		props := []string{"C08"}
		switch j.s("c", "") {
		case "binaryheap", "priorityqueue":
			props = append(props, "C06")
		case "linkedhashset", "linkedhashmap":
			props = append(props, "C09")
		}
		exploreJob(j, r, makeSys(j.s("c", ""), j), func(e *Explorer) {
			e.NoState = true
			e.OnState = func(path []Op, build func() Inst, st *Stats) *Viol {
				return rewoundIteratorCheck(build, st, tag(props...), j.p("pairs", 1))
			}
		})
	}
	// a plain search of any system makeSys can build
	jobKinds["anysys"] = func(j Job, r *JobResult) {
		exploreJob(j, r, makeSys(j.s("c", ""), j), nil)
	}
	jobKinds["linkeddeep"] = func(j Job, r *JobResult) {
		exploreJob(j, r, makeSys(j.s("c", ""), j), func(e *Explorer) {
			e.OnState = func(path []Op, build func() Inst, st *Stats) *Viol {
				b := build().(Box)
				// Each and the iterator agree with the insertion-order reference (String/ToJSON text order
				// need printable keys and are covered by the fixed-universe jobs)
				if ea, ok := b.(eacher); ok {
					got, exp := ea.EachSeq(), b.ExpSeq()
					if len(got) != len(exp) {
						return viol(tag("C09"), "mismatch", "Each visited %d elements, reference has %d", len(got), len(exp))
					}
					for i := range got {
						if !pairEq(got[i], exp[i]) {
							return viol(tag("C09"), "mismatch", "Each visit #%d = %v, insertion-order reference %v", i, got[i], exp[i])
						}
					}
					st.Nested["each_orders_checked"]++
				}
				return nil
			}
		})
	}
	jobKinds["heapx"] = func(j Job, r *JobResult) {
		s := hxSys(j.s("c", ""), j.s("cmp", "min"), j.p("n", 40), j.p("pmax", 1), j.p("skew", 0))
		exploreJob(j, r, s, func(e *Explorer) {
			e.OnState = func(path []Op, build func() Inst, st *Stats) *Viol {
				st.Nested["drains"]++
				return build().(*heapBox[HX]).drain()
			}
		})
	}
	jobKinds["list"] = func(j Job, r *JobResult) {
		if j.p("deep", 0) == 1 {
			exploreJob(j, r, makeSys(j.s("c", ""), j), nil)
			return
		}
		if j.s("elem", "") == "struct" {
			exploreJob(j, r, heListSys(j.s("c", ""), j.p("n", 4)), nil)
			return
		}
		ls := intListSys(j.s("c", ""), j.p("n", 6), j.p("u", 3))
		// a loaded list is a start state too; null entries decode "over" whatever a reused slot held
		ls.JSONTexts = []string{`[]`, `null`, `[null]`, `[1,null]`, `[null,null,1]`, `[2,1,0]`}
		exploreJob(j, r, ls, nil)
	}
	jobKinds["seq"] = func(j Job, r *JobResult) {
		if j.p("deep", 0) == 1 {
			s := &SeqSys[Val]{Kind: j.s("c", ""), Cap: j.p("cap", 0), N: j.p("n", 40), Poison: -99, Gen: func(i int) Val { return Val(i) }}
			exploreJob(j, r, s, nil)
			return
		}
		if j.s("elem", "") == "struct" {
			exploreJob(j, r, &SeqSys[HE]{Kind: j.s("c", ""), Cap: j.p("cap", 0), N: j.p("n", 4), Poison: HE{-99, -99},
				U: []HE{{0, 0}, {1, 1}, {2, 0}}, JSONTexts: heJSONTexts}, nil)
			return
		}
		s := &SeqSys[int]{Kind: j.s("c", ""), Cap: j.p("cap", 0), N: j.p("n", 5), Poison: -99}
		s.JSONTexts = []string{`null`, `[null]`, `[1,null]`, `[null,null,1]`}
		// FromJSON of every array up to length min(cap+1, 3) / 3 over the universe
		maxl := 3
		if s.Cap > 0 && s.Cap+1 < maxl {
			maxl = s.Cap + 1
		}
		uu := j.p("u", 3)
		var gen func(cur []int)
		gen = func(cur []int) {
			s.JSONs = append(s.JSONs, append([]int{}, cur...))
			if len(cur) < maxl {
				for x := 0; x < uu; x++ {
					gen(append(cur, x))
				}
			}
		}
		gen(nil)
		s.U = intU(j.p("u", 3))
		exploreJob(j, r, s, func(e *Explorer) {
			e.OnState = func(path []Op, build func() Inst, st *Stats) *Viol {
				b := build().(*seqBox[int])
				if s.Kind == "circularbuffer" {
					// count the (start,end,full) triples reached, from the canonical dump
					st.Nested["ring_states_cap_"+fmt.Sprint(s.Cap)]++
				}
				_ = b
				return nil
			}
		})
	}
}
