package main

import (
	"fmt"
)

// jobsFor lists the exploration jobs of one property at one tier.
func jobsFor(prop, tier string) []Job {
	q := tier != "thorough"
	var jobs []Job
	add := func(kind string, id string, w int, s map[string]string, p map[string]int) {
		dl := 240
		if !q {
			dl = 2400
		}
		jobs = append(jobs, Job{ID: prop + "." + id, Prop: prop, Kind: kind, Tier: tier, S: s, P: p, DeadlineS: dl, Weight: w})
	}
	pick := func(a, b int) int {
		if q {
			return a
		}
		return b
	}
	switch prop {
	case "C01":
		kvTreeJobs(prop, q, add)
		u := pick(4, 5)
		for _, k := range []string{"hashmap", "linkedhashmap"} {
			add("kv", fmt.Sprintf("%s.u%d", k, u), u, map[string]string{"c": k}, map[string]int{"u": u})
		}
		for _, c := range []string{"nat", "rev", "coarse"} {
			add("kv", fmt.Sprintf("treemap.fixed.%s.u%d", c, u+2), u, map[string]string{"c": "treemap", "cmp": c}, map[string]int{"u": u + 2})
		}
		bidiJobs(prop, q, add)
	case "C02":
		kvTreeJobs(prop, q, add)
		bidiJobs(prop, q, add)
	case "C07":
		kvTreeJobs(prop, q, add)
		bidiJobs(prop, q, add)
	case "C10":
		bidiJobs(prop, q, add)
	case "C05":
		n := pick(5, 7)
		for _, k := range []string{"arraystack", "linkedliststack", "arrayqueue", "linkedlistqueue"} {
			add("seq", k, n, map[string]string{"c": k}, map[string]int{"n": n, "u": 3})
		}
		for c := 1; c <= pick(4, 6); c++ {
			add("seq", fmt.Sprintf("ring%d", c), c, map[string]string{"c": "circularbuffer"}, map[string]int{"cap": c, "u": 2})
		}
	}
	return jobs
}

func bidiJobs(prop string, q bool, add func(kind, id string, w int, s map[string]string, p map[string]int)) {
	u := 3
	if !q {
		u = 4
	}
	add("kv", fmt.Sprintf("hashbidimap.u%d", u), u, map[string]string{"c": "hashbidimap"}, map[string]int{"u": u})
	for _, kc := range []string{"nat", "rev", "coarse"} {
		for _, vc := range []string{"nat", "rev", "coarse"} {
			uu := u
			if kc == "coarse" || vc == "coarse" {
				uu = u + 1 // coarse classes {1},{2,3},{4}: keep at least three classes
			}
			add("kv", fmt.Sprintf("treebidimap.%s.%s.u%d", kc, vc, uu), uu, map[string]string{"c": "treebidimap", "cmp": kc, "vcmp": vc}, map[string]int{"u": uu})
		}
	}
}

func assumptionsFor(prop string) []string {
	base := []string{
		"bounded: at most N live elements, small value universes (bounds per job in coverage.jobs)",
		"state deduplication by canonical heap fingerprint: the library is deterministic and address-independent, so equal fingerprints have equal futures (DESIGN.md §2.2)",
		"Go toolchain, reflect and encoding/json are trusted",
	}
	return base
}

func explanationFor(prop string) string {
	return "explicit-state breadth-first search over the real containers to a fixpoint under a live-size bound; every transition is a real API call replayed from the constructor on a fresh object and compared with a reference model; nested per-state enumerations are listed under 'nested' (DESIGN.md §4 " + prop + ")"
}

func init() {
	jobKinds["seq"] = func(j Job, r *JobResult) {
		s := &SeqSys[int]{Kind: j.s("c", ""), Cap: j.p("cap", 0), N: j.p("n", 5), Poison: -99}
		for i := 1; i <= j.p("u", 3); i++ {
			s.U = append(s.U, i)
		}
		exploreJob(j, r, s, func(e *Explorer) {
			e.OnState = func(path []Op, build func() Inst, st *Stats) *Viol {
				b := build().(*seqBox[int])
				if s.Kind == "circularbuffer" {
					// count the (start,end,full) triples reached, from the canonical dump
					st.Nested["ring_states_cap_"+fmt.Sprint(s.Cap)]++
				}
				_ = b
				return nil
			}
		})
	}
}
