package main

// C18: read-only operations are pure; concurrent readers are safe.
//
// Pass 1 (plain binary)  purity: canonical fingerprint before/after every reader.
// Pass 2 (-race binary)  free-running: every pair of reader calls on every state in two
//                        (thorough: three) goroutines released by a barrier.
// Pass 3 (plain binary)  operation-granularity schedules: all interleavings of k readers
//                        with m calls each.

import (
	"fmt"
	"strings"
	"sync"

	"github.com/emirpasic/gods/v2/containers"
)

type extraReaders interface{ ExtraReaders(other Box) []Reader }

func enumReaders(ad *enumAdapter) []Reader {
	if ad == nil {
		return nil
	}
	return []Reader{
		{"Each", func() string {
			var sb strings.Builder
			ad.each(func(a, b any) { fmt.Fprintf(&sb, "(%v,%v)", a, b) })
			return sb.String()
		}},
		{"Any(never)", func() string { return fmt.Sprint(ad.anyF(func(a, b any) bool { return false })) }},
		{"All(always)", func() string { return fmt.Sprint(ad.allF(func(a, b any) bool { return true })) }},
		{"Find(never)", func() string { a, b := ad.find(func(a, b any) bool { return false }); return fmt.Sprint(a, b) }},
		{"Select(always)", func() string {
			_, res, _, _ := ad.selectF(func(a, b any) bool { return true })
			return sortRunesIf(false, fmt.Sprint(res))
		}},
		{"Map(first)", func() string {
			_, res, _, _ := ad.mapF(func(a, b any) int { return 0 })
			return fmt.Sprint(res)
		}},
	}
}

func sortedReader[T comparable](obj any, name string) Reader {
	return Reader{"GetSortedValuesFunc", func() string {
		c := obj.(containers.Container[T])
		return fmtVals(containers.GetSortedValuesFunc(c, func(x, y T) int { return anyCmp(x, y) }))
	}}
}

func (b *listBox[T]) ExtraReaders(other Box) []Reader {
	return append(enumReaders(b.enumAdapter()), sortedReader[T](b.a.obj, b.a.name))
}
func (b *seqBox[T]) ExtraReaders(other Box) []Reader {
	return []Reader{sortedReader[T](b.a.obj, b.a.name)}
}
func (b *heapBox[T]) ExtraReaders(other Box) []Reader {
	return []Reader{sortedReader[T](b.a.obj, b.a.name)}
}
func (b *setBox[T]) ExtraReaders(other Box) []Reader {
	rs := append(enumReaders(b.enumAdapter()), sortedReader[T](b.a.obj, b.a.name))
	o := other.(*setBox[T])
	for _, opn := range setAlgOps {
		opn := opn
		rs = append(rs, Reader{opn + "(other)", func() string { return sortedRender(b.sys, applySetAlg(b.a, o.a, opn)) }})
		rs = append(rs, Reader{opn + "(self)", func() string { return sortedRender(b.sys, applySetAlg(b.a, b.a, opn)) }})
		rs = append(rs, Reader{"other." + opn + "(this)", func() string { return sortedRender(b.sys, applySetAlg(o.a, b.a, opn)) }})
	}
	return rs
}
func (b *kvBox[K, V]) ExtraReaders(other Box) []Reader {
	rs := enumReaders(b.enumAdapter())
	if b.sys.Kind != "treeset" {
		rs = append(rs, Reader{"GetSortedValuesFunc", func() string {
			c := b.a.obj.(containers.Container[V])
			return fmtVals(containers.GetSortedValuesFunc(c, func(x, y V) int { return anyCmp(x, y) }))
		}})
	}
	return rs
}

func allReaders(b, other Box) []Reader {
	rs := b.Readers()
	if x, ok := b.(extraReaders); ok {
		rs = append(rs, x.ExtraReaders(other)...)
	}
	return rs
}

// purityPass: every reader individually, fingerprint before/after, result stable on repetition.
func purityPass(build func() Inst, st *Stats) *Viol {
	b, other := build().(Box), build().(Box)
	for _, r := range allReaders(b, other) {
		inflightSeq.Add(1)
		r := r
		var first string
		if v := pureCall(b.Opts(), b.Obj(), r.Name, tag("C18"), func() { first = r.Call() }); v != nil {
			return v
		}
		if v := pureCall(other.Opts(), other.Obj(), r.Name+" [the other operand]", tag("C18"), func() {}); v != nil {
			return v
		}
		if again := r.Call(); again != first {
			return viol(tag("C18"), "mismatch", "read-only call %s on %s returned %q, then %q on the unchanged container", r.Name, b.ContainerName(), clip(first, 200), clip(again, 200))
		}
		st.Nested["reader_calls_purity_checked"]++
	}
	return nil
}

// racePass: all pairs of readers in two goroutines (both spawn orders), optionally a third.
func racePass(build func() Inst, reps int, third bool, st *Stats) *Viol {
	b, other := build().(Box), build().(Box)
	rs := allReaders(b, other)
	k0, ko := b.Key(), other.Key()
	ans := make([]string, len(rs))
	for i, r := range rs {
		ans[i] = r.Call()
	}
	thirdIdx := []int{-1}
	if third {
		thirdIdx = nil
		for i, r := range rs {
			if r.Name == "Values" || r.Name == "Iterate" || r.Name == "String" {
				thirdIdx = append(thirdIdx, i)
			}
		}
	}
	run := func(idx []int) *Viol {
		inflightSeq.Add(1)
		res := make([]string, len(idx))
		var wg sync.WaitGroup
		start := make(chan struct{})
		for t, ri := range idx {
			wg.Add(1)
			go func(t, ri int) {
				defer wg.Done()
				<-start
				res[t] = rs[ri].Call()
			}(t, ri)
		}
		close(start)
		wg.Wait()
		st.Nested["concurrent_reader_cases"]++
		names := make([]string, len(idx))
		for t, ri := range idx {
			names[t] = rs[ri].Name
		}
		if v := raceReportCheck(fmt.Sprintf("%s: concurrent %v", b.ContainerName(), names)); v != nil {
			return v
		}
		for t, ri := range idx {
			if res[t] != ans[ri] {
				return viol(tag("C18"), "mismatch", "%s: %s running concurrently with %v returned %q, sequentially %q", b.ContainerName(), rs[ri].Name, names, clip(res[t], 200), clip(ans[ri], 200))
			}
		}
		return nil
	}
	for rep := 0; rep < reps; rep++ {
		for i := range rs {
			for j := range rs {
				for _, t := range thirdIdx {
					idx := []int{i, j}
					if t >= 0 {
						idx = append(idx, t)
					}
					if v := run(idx); v != nil {
						return v
					}
				}
			}
		}
	}
	if b.Key() != k0 || other.Key() != ko {
		return viol(tag("C18"), "invariant", "%s: state changed by concurrent read-only calls: %s -> %s", b.ContainerName(), clip(k0, 300), clip(b.Key(), 300))
	}
	return nil
}

// raceReportCheck: the race detector writes its reports to fd 2, which the worker
// redirected to its scratch file.
func raceReportCheck(what string) *Viol {
	v := outGuardCheck(what)
	if v == nil {
		return nil
	}
	if strings.Contains(v.Msg, "DATA RACE") {
		return &Viol{Props: []string{"C18"}, Class: "race", Msg: "the Go race detector reported a data race during " + what + ":\n" + clip(v.Msg, 1800)}
	}
	return nil // other output is C17's business
}

// schedulePass: all interleavings of k reader programs with m calls each, executed in the
// prescribed order; every call returns its sequential answer and leaves the state unchanged.
func schedulePass(build func() Inst, st *Stats) *Viol {
	b, other := build().(Box), build().(Box)
	all := allReaders(b, other)
	ans := map[string]string{}
	for _, r := range all {
		ans[r.Name] = r.Call()
	}
	k0 := b.Key()
	// reduced reader set for the larger configurations
	pickN := func(n int) []Reader {
		pref := []string{"Values", "Iterate", "String", "ToJSON", "Keys", "Each", "Size"}
		var out []Reader
		for _, p := range pref {
			for _, r := range all {
				if r.Name == p && len(out) < n {
					out = append(out, r)
				}
			}
		}
		for _, r := range all {
			if len(out) < n && !strings.HasPrefix(r.Name, "Size") {
				dup := false
				for _, o := range out {
					if o.Name == r.Name {
						dup = true
					}
				}
				if !dup {
					out = append(out, r)
				}
			}
		}
		return out
	}
	type cfg struct{ k, m, readers int }
	for _, c := range []cfg{{2, 1, len(all)}, {2, 2, 5}, {3, 1, 6}, {3, 2, 2}} {
		rs := all
		if c.readers < len(all) {
			rs = pickN(c.readers)
		}
		total := c.k * c.m
		// programs: every assignment of readers to the k*m slots
		nprog := 1
		for i := 0; i < total; i++ {
			nprog *= len(rs)
		}
		// interleavings: sequences of thread ids with m occurrences each
		var inter [][]int
		var gen func(cur []int, left []int)
		gen = func(cur []int, left []int) {
			if len(cur) == total {
				inter = append(inter, append([]int{}, cur...))
				return
			}
			for t := 0; t < c.k; t++ {
				if left[t] > 0 {
					left[t]--
					gen(append(cur, t), left)
					left[t]++
				}
			}
		}
		left := make([]int, c.k)
		for i := range left {
			left[i] = c.m
		}
		gen(nil, left)
		for p := 0; p < nprog; p++ {
			inflightSeq.Add(1)
			prog := make([]int, total) // slot (t*m + step) -> reader
			x := p
			for i := range prog {
				prog[i] = x % len(rs)
				x /= len(rs)
			}
			for _, il := range inter {
				pc := make([]int, c.k)
				for _, t := range il {
					r := rs[prog[t*c.m+pc[t]]]
					pc[t]++
					if got := r.Call(); got != ans[r.Name] {
						return viol(tag("C18"), "mismatch", "%s: in schedule %v of %d readers x %d calls, %s returned %q, sequentially %q", b.ContainerName(), il, c.k, c.m, r.Name, clip(got, 200), clip(ans[r.Name], 200))
					}
				}
				st.Nested["schedules_executed"]++
			}
		}
		if k := b.Key(); k != k0 {
			return viol(tag("C18"), "invariant", "%s: state changed by interleaved read-only calls", b.ContainerName())
		}
	}
	return nil
}

func init() {
	jobKinds["pure"] = func(j Job, r *JobResult) {
		s := pureSys(makeSys(j.s("c", ""), j))
		exploreJob(j, r, s, func(e *Explorer) {
			e.OnState = func(path []Op, build func() Inst, st *Stats) *Viol {
				if v := purityPass(build, st); v != nil {
					return v
				}
				if j.p("sched", 1) == 1 && build().Size() <= j.p("schedmax", 3) {
					return schedulePass(build, st)
				}
				return nil
			}
		})
	}
	jobKinds["race"] = func(j Job, r *JobResult) {
		s := pureSys(makeSys(j.s("c", ""), j))
		if !raceEnabled {
			r.Notes = append(r.Notes, "WARNING: this worker is not a -race build")
		}
		exploreJob(j, r, s, func(e *Explorer) {
			e.NoState = true
			e.OnState = func(path []Op, build func() Inst, st *Stats) *Viol {
				st.Nested["race_pass_states"]++
				return racePass(build, j.p("reps", 1), j.p("third", 0) == 1, st)
			}
		})
		if !raceEnabled {
			panic("tool error: race job executed by a binary built without -race")
		}
	}
}

// largeStatesJob: nested enumerations on LARGE containers.  A fixpoint at 200-300 elements is out of
// reach for the per-state enumerations (quadratic reader pairs, snapshots against every operation, iterator
// graphs, round trips), so ONE history is followed — the first operation of the (deep, data-independent)
// alphabet that grows the container by one, repeated up to the bound, then the first operation that shrinks
// it by one, repeated down to empty — and the complete nested enumeration of the job's check runs at the
// sizes every, 2*every, .. and at the bound, on the way up and on the way down (the capacity differs).
// Exhaustive over the nested enumeration at the stated states only.
//
//	check = pure | race (C18) | snap (C16) | iter | rewound (C08) | roundtrip (C11) | enum (C14) | state
func largeStatesJob(j Job, r *JobResult) {
	s := makeSys(j.s("c", ""), j)
	n, every := j.p("n", 200), j.p("every", 64)
	check := j.s("check", "pure")
	if j.s("binary", "") == "race" {
		check = "race"
	}
	if check == "pure" || check == "race" {
		s = pureSys(s)
	}
	r.St = Stats{Nested: map[string]int{}, PerSize: map[int]int{}, OpsHistogram: map[string]int{}, Exhaustive: true}
	if check == "race" && !raceEnabled {
		panic("tool error: race job executed by a binary built without -race")
	}
	nested := func(build func() Inst) *Viol {
		switch check {
		case "race":
			r.St.Nested["race_pass_states"]++
			return racePass(build, j.p("reps", 1), false, &r.St)
		case "snap":
			r.St.Nested["snapshot_states"]++
			return snapshotCheck(build, &r.St)
		case "iter":
			b := build().(Box)
			if b.NewIter() == nil {
				return nil
			}
			before, ids := CanonIDs(b.Opts(), b.Obj())
			if v := iterGraphCheck(b.NewIter, ids, b.ExpSeq(), b.Opts(), 3, tag("C08"), &r.St); v != nil {
				return v
			}
			if after, _ := CanonIDs(b.Opts(), b.Obj()); after != before {
				return viol(tag("C08", "C18"), "invariant", "iterating changed the container")
			}
			return nil
		case "rewound":
			return rewoundIteratorCheck(build, &r.St, tag("C08", "C06", "C09"), 0)
		case "roundtrip":
			return roundTripCheck(build, func(key, via string) {}, &r.St)
		case "state":
			return build().CheckState()
		case "enum":
			en, ok := build().(enumerable)
			if !ok {
				return nil
			}
			ad := en.enumAdapter()
			if ad == nil {
				return nil
			}
			r.St.Nested["enum_states"]++
			ad.followCap = 8
			return enumCheck(ad, 4, 100000, &r.St)
		}
		return purityPass(build, &r.St)
	}
	pass := func(path []Op) bool {
		build := func() Inst {
			in := s.New()
			for i, o := range path {
				inflightSeq.Add(1)
				if ph, ok := in.(phased); ok && i == len(path)-1 && (check == "pure" || check == "race") {
					// the last operation WITHOUT the observers of the transition oracle: whatever a reader may
					// build lazily has not been built yet when the reader passes begin
					o := o
					safeCheck(func() *Viol { return ph.Do(o) }, nil, o.String())
					continue
				}
				if v := safeStep(in, o, nil); v != nil && v.Class == "panic" {
					panic("tool error: fill history panics: " + v.Msg) // reported by the family's own property
				}
			}
			return in
		}
		inflightSeq.Add(1)
		v := safeCheck(func() *Viol { return nested(build) }, []string{j.Prop}, "nested enumeration ("+check+")")
		if v == nil && j.Prop == "C17" {
			v = outGuardCheck("nested enumeration")
		}
		r.St.States++
		r.St.PerSize[build().Size()]++
		if v != nil && v.Has(j.Prop) {
			v.Msg = fmt.Sprintf("container after %d operations (%d elements): %s", len(path), build().Size(), v.Msg)
			r.Found = &Found{V: v, Path: path, Calls: describePath(s, path, nil)}
			r.St.Exhaustive = false
			return true
		}
		return false
	}
	if j.Replay != nil {
		in := s.New()
		for i, o := range j.Replay.Path {
			if v := safeStep(in, o, nil); v != nil && v.Has(j.Prop) {
				v.Msg = fmt.Sprintf("step %d of the history, %s: %s", i, o.String(), v.Msg)
				r.Found = &Found{V: v, Path: j.Replay.Path[:i+1], Calls: describePath(s, j.Replay.Path[:i+1], nil)}
				return
			}
		}
		pass(j.Replay.Path)
		return
	}
	var path []Op
	cur := s.New()
	memo := map[int]Op{}
	var stepViol *Viol
	var stepPath []Op
	reportStep := func() bool {
		if stepViol == nil {
			return false
		}
		r.Found = &Found{V: stepViol, Path: stepPath, Calls: describePath(s, stepPath, nil)}
		r.St.Exhaustive = false
		return true
	}
	move := func(delta int) bool { // extend the history by the first operation that changes the size by delta
		size := cur.Size()
		var cands []Op
		if o, ok := memo[delta]; ok { // what worked at the previous step (a rebuild costs a whole replay)
			cands = append(cands, o)
		}
		cands = append(cands, cur.Ops()...)
		for _, o := range cands {
			inflightSeq.Add(1)
			sv := safeStep(cur, o, nil)
			r.St.Transitions++
			if sv != nil && sv.Has(j.Prop) && stepViol == nil {
				// the transition oracle (returned values, Size / Values against the reference) of the history itself
				sv.Msg = fmt.Sprintf("step %d of the history, %s: %s", len(path), o.String(), sv.Msg)
				stepViol, stepPath = sv, append(append([]Op{}, path...), o)
			}
			if cur.Size() == size+delta {
				path = append(path, o)
				memo[delta] = o
				return true
			}
			cur = s.New() // not this one: rebuild the state
			for _, p := range path {
				inflightSeq.Add(1)
				safeStep(cur, p, nil)
			}
		}
		return false
	}
	for cur.Size() < n {
		if !move(+1) {
			panic(fmt.Sprintf("tool error: no operation of %s grows the container from size %d", s.Name(), cur.Size()))
		}
		if reportStep() {
			return
		}
		if sz := cur.Size(); sz%every == 0 || sz == n {
			if pass(append([]Op{}, path...)) {
				return
			}
		}
	}
	for cur.Size() > 0 {
		if !move(-1) {
			break // no single-element removal in this alphabet
		}
		if reportStep() {
			return
		}
		if sz := cur.Size(); sz%every == 0 && sz > 0 {
			if pass(append([]Op{}, path...)) {
				return
			}
		}
	}
	r.St.Samples = []any{map[string]any{"system": s.Name(), "check": check, "family": "one history: single insertions up to the bound, single removals down to empty; nested enumeration at sizes every, 2*every, .. and the bound, both ways", "every": every, "bound": n}}
}

func init() { jobKinds["largereaders"] = largeStatesJob; jobKinds["largestates"] = largeStatesJob }
