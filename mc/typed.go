package main

// Element / key types beyond int, string and float64: sized and unsigned integers AT THEIR LIMITS.
//
// The containers are generic, so their own code cannot branch on the element type — but a change to
// the library can (a fast path through any(x).(int), a conversion through int / float64, a hand-written
// default comparator, a key formatted with %d or strconv.Itoa, a JSON detour through map[string]any).
// Property C11 names "string and integer key types"; these systems instantiate every container kind
// with int8, int64 and uint64 elements / keys (uint8 as map key only: encoding/json renders a []uint8
// as a base64 string, so value containers of bytes are outside "an array for value containers") over
// universes that hold the zero value and both limits of the type.

import (
	"cmp"
	"math"
	"strconv"
	"time"

	"github.com/emirpasic/gods/v2/utils"

	"github.com/emirpasic/gods/v2/maps/treebidimap"
	"github.com/emirpasic/gods/v2/maps/treemap"
	"github.com/emirpasic/gods/v2/queues/priorityqueue"
	"github.com/emirpasic/gods/v2/sets/treeset"
	"github.com/emirpasic/gods/v2/trees/avltree"
	"github.com/emirpasic/gods/v2/trees/binaryheap"
	"github.com/emirpasic/gods/v2/trees/btree"
	"github.com/emirpasic/gods/v2/trees/redblacktree"
)

type typeSpec[T cmp.Ordered] struct {
	name           string
	U              []T // universe: zero value, least, greatest, and fillers
	Absent, Poison T
	Probes         []T
}

// SK: an integer key type WITH a String() method — encoding/json writes such a map key as the number,
// fmt.Sprint / %v write it through String().  (after seeded change C11-13)
type SK int

func (k SK) String() string { return "key#" + strconv.Itoa(int(k)) }

var (
	specSK  = typeSpec[SK]{"SK", []SK{0, -1, 10, 1, 100}, 5, -99, []SK{-2, 7}}
	specI8  = typeSpec[int8]{"int8", []int8{0, math.MinInt8, math.MaxInt8, -1, 1}, 5, -99, []int8{-127, 126}}
	specU8  = typeSpec[uint8]{"uint8", []uint8{0, math.MaxUint8, 128, 1, 127}, 5, 99, []uint8{254, 2}}
	specI64 = typeSpec[int64]{"int64", []int64{0, math.MinInt64, math.MaxInt64, -1, 1 << 53}, 5, -99, []int64{math.MinInt64 + 1, math.MaxInt64 - 1}}
	specU64 = typeSpec[uint64]{"uint64", []uint64{0, math.MaxUint64, 1 << 63, 1, 1<<63 - 1}, 5, 99, []uint64{math.MaxUint64 - 1, 1<<63 + 1}}
)

// typedSysFor: the system of container kind c for the job's "elem" type, or nil when elem names none of them.
func typedSysFor(c string, j Job) Sys {
	switch j.s("elem", "") {
	case "i8":
		return typedSys(c, j, specI8)
	case "u8":
		return typedSys(c, j, specU8)
	case "i64":
		return typedSys(c, j, specI64)
	case "u64":
		return typedSys(c, j, specU64)
	case "sk":
		return typedSys(c, j, specSK)
	case "time":
		return timeSys(c, j)
	case "pstr":
		return psSys(c, j)
	case "fzero":
		return fzeroSys(c, j)
	}
	return nil
}

func typedCmps[T cmp.Ordered](sp typeSpec[T]) map[string]func(a, b T) int {
	// coarse: a monotone many-to-one image of the natural order (the rank among the universe, halved)
	rank := func(x T) int {
		r := 0
		for _, u := range sp.U {
			if u < x {
				r++
			}
		}
		return r / 2
	}
	return map[string]func(a, b T) int{
		"nat":    func(a, b T) int { return cmp.Compare(a, b) },
		"rev":    func(a, b T) int { return 3 * cmp.Compare(b, a) },
		"coarse": func(a, b T) int { return rank(a) - rank(b) },
	}
}

func typedSys[T cmp.Ordered](c string, j Job, sp typeSpec[T]) Sys {
	n, u := j.p("n", 4), j.p("u", 3)
	if u > len(sp.U) {
		u = len(sp.U)
	}
	U := sp.U[:u]
	cmpN := j.s("cmp", "nat")
	cmps := typedCmps(sp)
	def := j.s("ctor", "") == "default" // New[T cmp.Ordered]() instead of NewWith(cmp)
	label := "/" + sp.name
	if def {
		label += "/New()"
		cmpN = "nat"
	}
	switch c {
	case "arraylist", "singlylinkedlist", "doublylinkedlist":
		ls := &ListSys[T]{Kind: c, U: U, Absent: sp.Absent, Poison: sp.Poison, N: n, Cmps: cmps, Label: label}
		if j.p("jsonops", 0) == 1 {
			ls.JSONTexts = []string{`[]`, `null`, `[null]`, `[1,null]`, `[null,null,1]`}
		}
		return ls
	case "hashset", "linkedhashset", "treeset":
		s := &SetSys[T]{Kind: c, CmpN: cmpN, U: U, Absent: sp.Absent, Poison: sp.Poison, Cmp: cmps[cmpN], Tuples: defaultSetTuples(u), Label: label}
		if def && c == "treeset" {
			s.Custom = func(vals ...T) *setAPI[T] { return wrapTreeSet(treeset.New[T](vals...)) }
		}
		return s
	case "arraystack", "linkedliststack", "arrayqueue", "linkedlistqueue", "circularbuffer":
		ss := &SeqSys[T]{Kind: c, Cap: j.p("cap", 3), N: n, Poison: sp.Poison, U: U, Label: label}
		if j.p("jsonops", 0) == 1 {
			ss.JSONTexts = []string{`[]`, `null`, `[null]`, `[1,null]`, `[null,null,1]`}
		}
		return ss
	case "binaryheap", "priorityqueue":
		hc := "min"
		if cmpN == "rev" {
			hc = "max"
		}
		f := cmps["nat"]
		if hc == "max" {
			f = cmps["rev"]
		}
		s := genHeapSys(c, hc, n, U, sp.Poison, f, len(U), func(p, pos int) int { return p - 1 }, j.p("jsonlen", 2))
		s.Label = label
		if def {
			s.Cmp = cmps["nat"]
			s.CmpN = "min"
			if c == "binaryheap" {
				s.Custom = func(b *heapBox[T]) { b.a = wrapHeap(binaryheap.New[T]()) }
			} else {
				s.Custom = func(b *heapBox[T]) { b.a = wrapPQ(priorityqueue.New[T]()) }
			}
		}
		return s
	case "hashbidimap", "treebidimap":
		vcmpN := j.s("vcmp", "nat")
		if def {
			vcmpN = "nat"
		}
		vu := j.p("vu", u)
		if vu > len(sp.U) {
			vu = len(sp.U)
		}
		sys := &KVSys[T, T]{Kind: c, CmpN: cmpN, VCmpN: vcmpN, N: j.p("n", u), KU: U, VU: sp.U[:vu], KCmp: cmps[cmpN], VCmp: cmps[vcmpN],
			PropsL: kvProps, Label: label, Probes: func(live []T) []T { return sp.Probes }}
		if def && c == "treebidimap" {
			sys.Custom = func(b *kvBox[T, T]) *kvAPI[T, T] { return wrapTreeBidiMap(treebidimap.New[T, T]()) }
		}
		return sys
	case "hashmap", "linkedhashmap", "treemap", "rbt", "avl", "btree":
		order := j.p("m", 3)
		sys := &KVSys[T, Val]{Kind: c, Order: order, CmpN: cmpN, N: j.p("n", u), KU: U, Fresh: func(i int) Val { return Val(i) },
			KCmp: cmps[cmpN], VCmp: func(a, b Val) int { return int(a - b) }, PropsL: kvProps, Label: label,
			Probes: func(live []T) []T { return sp.Probes }}
		if def {
			sys.Custom = func(b *kvBox[T, Val]) *kvAPI[T, Val] {
				switch c {
				case "rbt":
					return wrapRBT(redblacktree.New[T, Val]())
				case "avl":
					return wrapAVL(avltree.New[T, Val]())
				case "btree":
					return wrapBT(btree.New[T, Val](order), order)
				case "treemap":
					return wrapTreeMap(treemap.New[T, Val]())
				}
				panic("tool error: no default constructor for " + c)
			}
		}
		return sys
	}
	panic("typedSys: unknown container " + c)
}

// timeSys: the one comparator the library itself ships for a non-ordered key type, utils.TimeComparator,
// given to the tree containers; the reference order is time.Time.Compare.  The universe holds instants
// that a detour through UnixNano() cannot tell apart (2^64 ns apart) or orders wrongly (outside 1678-2262).
// (after seeded change C10-14)
func timeUniverse() []time.Time {
	z := time.Time{}.UTC()
	base := time.Date(2024, 1, 1, 0, 0, 0, 0, time.UTC)
	wrap := func(t time.Time) time.Time {
		return time.Unix(t.Unix()+18446744073, int64(t.Nanosecond())+709551616).UTC()
	} // + 2^64 ns
	return []time.Time{base, wrap(base), z, wrap(z), time.Unix(0, 0).UTC()}
}

func timeSys(c string, j Job) Sys {
	u := j.p("u", 5)
	U := timeUniverse()
	if u > len(U) {
		u = len(U)
	}
	ref := func(a, b time.Time) int { return a.Compare(b) }
	probes := []time.Time{time.Date(1600, 1, 1, 0, 0, 0, 0, time.UTC), time.Date(3000, 1, 1, 0, 0, 0, 0, time.UTC)}
	label := "/time.Time/utils.TimeComparator"
	switch c {
	case "treeset":
		s := &SetSys[time.Time]{Kind: c, CmpN: "nat", U: U[:u], Absent: probes[0], Poison: probes[1], Cmp: ref, Tuples: defaultSetTuples(u), Label: label, NoCtor: true}
		s.Custom = func(vals ...time.Time) *setAPI[time.Time] {
			return wrapTreeSet(treeset.NewWith[time.Time](utils.TimeComparator, vals...))
		}
		return s
	case "treebidimap":
		sys := &KVSys[time.Time, time.Time]{Kind: c, CmpN: "nat", VCmpN: "nat", N: u, KU: U[:u], VU: U[:min(u, 3)], KCmp: ref, VCmp: ref,
			PropsL: kvProps, Label: label, NoCount: true, Probes: func(live []time.Time) []time.Time { return probes }}
		sys.Custom = func(b *kvBox[time.Time, time.Time]) *kvAPI[time.Time, time.Time] {
			return wrapTreeBidiMap(treebidimap.NewWith[time.Time, time.Time](utils.TimeComparator, utils.TimeComparator))
		}
		return sys
	case "treemap", "rbt", "avl", "btree":
		order := j.p("m", 3)
		sys := &KVSys[time.Time, Val]{Kind: c, Order: order, CmpN: "nat", N: u, KU: U[:u], Fresh: func(i int) Val { return Val(i) },
			KCmp: ref, VCmp: func(a, b Val) int { return int(a - b) }, PropsL: kvProps, Label: label, NoCount: true,
			Probes: func(live []time.Time) []time.Time { return probes }}
		sys.Custom = func(b *kvBox[time.Time, Val]) *kvAPI[time.Time, Val] {
			switch c {
			case "rbt":
				return wrapRBT(redblacktree.NewWith[time.Time, Val](utils.TimeComparator))
			case "avl":
				return wrapAVL(avltree.NewWith[time.Time, Val](utils.TimeComparator))
			case "btree":
				return wrapBT(btree.NewWith[time.Time, Val](order, utils.TimeComparator), order)
			}
			return wrapTreeMap(treemap.NewWith[time.Time, Val](utils.TimeComparator))
		}
		return sys
	}
	panic("timeSys: no time.Time job for " + c)
}

// PS: POINTER elements / keys whose type has a String() method with a value receiver — calling it on a
// nil *PS panics (runtime.panicwrap).  Package fmt protects its callers from that ("<nil>"); code that
// calls String() itself does not.  The universe holds a typed nil.  (after seeded change C17-13)
type PS struct{ N int }

func (p PS) String() string { return "ps" + strconv.Itoa(p.N) }

var psVals = []*PS{nil, {1}, {2}, {3}}
var psAbsent, psPoison = &PS{9}, &PS{-99}

func psCmp(a, b *PS) int {
	switch {
	case a == nil && b == nil:
		return 0
	case a == nil:
		return -1
	case b == nil:
		return 1
	}
	return cmp.Compare(a.N, b.N)
}

func psSys(c string, j Job) Sys {
	n, u := j.p("n", 4), j.p("u", 3)
	if u > len(psVals) {
		u = len(psVals)
	}
	U := psVals[:u]
	label := "/*PS"
	rev := func(a, b *PS) int { return psCmp(b, a) }
	switch c {
	case "arraylist", "singlylinkedlist", "doublylinkedlist":
		return &ListSys[*PS]{Kind: c, U: U, Absent: psAbsent, Poison: psPoison, N: n, Label: label,
			Cmps: map[string]func(a, b *PS) int{"nat": psCmp, "rev": rev, "coarse": psCmp}}
	case "hashset", "linkedhashset", "treeset":
		return &SetSys[*PS]{Kind: c, CmpN: "nat", U: U, Absent: psAbsent, Poison: psPoison, Cmp: psCmp, Tuples: defaultSetTuples(u), Label: label, NoJSON: true}
	case "arraystack", "linkedliststack", "arrayqueue", "linkedlistqueue", "circularbuffer":
		return &SeqSys[*PS]{Kind: c, Cap: j.p("cap", 3), N: n, Poison: psPoison, U: U, Label: label}
	case "binaryheap", "priorityqueue":
		s := genHeapSys(c, "min", n, U, psPoison, psCmp, len(U), func(p, pos int) int { return p - 1 }, 0)
		s.Label = label
		return s
	case "hashmap", "linkedhashmap", "treemap", "rbt", "avl", "btree":
		return &KVSys[*PS, Val]{Kind: c, Order: j.p("m", 3), CmpN: "nat", N: j.p("n", u), KU: U, Fresh: func(i int) Val { return Val(i) },
			KCmp: psCmp, VCmp: func(a, b Val) int { return int(a - b) }, PropsL: kvProps, Label: label,
			Probes: func(live []*PS) []*PS { return []*PS{psAbsent} }}
	}
	panic("psSys: unknown container " + c)
}

// fzeroSys: a comparator that is FINER than == : the IEEE total order on float64 puts -0 before +0,
// while -0 == +0.  A valid strict weak order; the tree containers may consult nothing but the comparator.
// (after seeded change C01-14, a look-up shortcut through ==)
func fzeroSys(c string, j Job) Sys {
	negZero := math.Copysign(0, -1)
	U := []float64{negZero, 0, 1.5, -1.5}
	total := func(a, b float64) int {
		if a == b && a == 0 {
			sa, sb := math.Signbit(a), math.Signbit(b)
			switch {
			case sa && !sb:
				return -1
			case !sa && sb:
				return 1
			}
			return 0
		}
		return cmp.Compare(a, b)
	}
	probes := []float64{-7, 0.5, 9}
	label := "/float64/total-order(-0<+0)"
	order := j.p("m", 3)
	if c == "treebidimap" {
		return &KVSys[float64, float64]{Kind: c, CmpN: "nat", VCmpN: "nat", N: len(U), KU: U, VU: U[:3], KCmp: total, VCmp: total,
			PropsL: kvProps, Label: label, Probes: func(live []float64) []float64 { return probes }}
	}
	sys := &KVSys[float64, Val]{Kind: c, Order: order, CmpN: "nat", N: len(U), KU: U, Fresh: func(i int) Val { return Val(i) },
		KCmp: total, VCmp: func(a, b Val) int { return int(a - b) }, PropsL: kvProps, Label: label,
		Probes: func(live []float64) []float64 { return probes }}
	if c == "treeset" {
		sys.Fresh = func(i int) Val { return 0 }
	}
	return sys
}
