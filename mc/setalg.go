package main

// C13: set algebra over ALL pairs of reachable set states (separate objects) and
// (a, a) as the identical object.

import (
	"encoding/json"
	"fmt"
	"sort"

	"github.com/emirpasic/gods/v2/sets/hashset"
	"github.com/emirpasic/gods/v2/sets/linkedhashset"
	"github.com/emirpasic/gods/v2/sets/treeset"
)

type setalgAux struct {
	PathB []Op   `json:"path_b"`
	Same  bool   `json:"same_object"`
	Op    string `json:"op"`
}

func setMathResult[T comparable](s *SetSys[T], opn string, a, b []T) []T {
	in := func(xs []T, x T) bool {
		for _, y := range xs {
			if s.same(x, y) {
				return true
			}
		}
		return false
	}
	var r []T
	switch opn {
	case "Intersection":
		for _, x := range a {
			if in(b, x) {
				r = append(r, x)
			}
		}
	case "Union":
		r = append(r, a...)
		for _, x := range b {
			if !in(a, x) {
				r = append(r, x)
			}
		}
	case "Difference":
		for _, x := range a {
			if !in(b, x) {
				r = append(r, x)
			}
		}
	}
	return r
}

func sameAsSet[T comparable](s *SetSys[T], got, want []T) bool {
	if len(got) != len(want) {
		return false
	}
	for _, x := range want {
		f := 0
		for _, y := range got {
			if s.same(x, y) {
				f++
			}
		}
		if f != 1 {
			return false
		}
	}
	return true
}

func applySetAlg[T comparable](a, b *setAPI[T], opn string) *setAPI[T] {
	switch opn {
	case "Intersection":
		return a.inter(b)
	case "Union":
		return a.union(b)
	}
	return a.diff(b)
}

var setAlgOps = []string{"Intersection", "Union", "Difference"}

// one (a, b, op) case
func setAlgCase[T comparable](s *SetSys[T], pa, pb []Op, same bool, opn string, st *Stats, build func(p []Op) *setBox[T]) *Viol {
	p := tag("C13")
	inflightSeq.Add(1)
	mk := func() (a, b *setBox[T]) {
		a = build(pa)
		if same {
			return a, a
		}
		return a, build(pb)
	}
	a, b := mk()
	ka, kb := a.Key(), b.Key()
	refA, refB := append([]T{}, a.ref...), append([]T{}, b.ref...)
	r := applySetAlg(a.a, b.a, opn)
	st.Nested["set_operations"]++
	desc := fmt.Sprintf("a=%v b=%v%s: a.%s(b)", refA, refB, map[bool]string{true: " (identical object)", false: ""}[same], opn)
	want := setMathResult(s, opn, refA, refB)
	got := r.values()
	if !sameAsSet(s, got, want) {
		return viol(p, "mismatch", "%s = %v, mathematical result %v", desc, got, want)
	}
	if r.size() != len(want) || r.empty() != (len(want) == 0) {
		return viol(p, "mismatch", "%s: result Size() = %d, Empty() = %v, want %d members", desc, r.size(), r.empty(), len(want))
	}
	for _, x := range append(append([]T{}, s.U...), s.Absent) {
		w := false
		for _, y := range want {
			if s.same(x, y) {
				w = true
			}
		}
		if r.contains(x) != w {
			return viol(p, "mismatch", "%s: result.Contains(%v) = %v, want %v", desc, x, !w, w)
		}
	}
	if s.ordered() {
		for i := 1; i < len(got); i++ {
			if s.Cmp(got[i-1], got[i]) >= 0 {
				return viol(p, "mismatch", "%s: TreeSet result %v is not in the operands' comparator order", desc, got)
			}
		}
	}
	if a.Key() != ka || b.Key() != kb {
		return viol(tag("C13", "C18"), "invariant", "%s changed an operand: a %s -> %s, b %s -> %s", desc, clip(ka, 200), clip(a.Key(), 200), clip(kb, 200), clip(b.Key(), 200))
	}
	if r.obj == a.a.obj || r.obj == b.a.obj {
		return viol(p, "invariant", "%s returned one of its operands instead of a new set", desc)
	}
	// the result as a start state: every operation of the alphabet on a freshly computed result,
	// under the set family's own oracle (membership, size, order, iteration, representatives)
	{
		mkRes := func() *setBox[T] {
			a2, b2 := mk()
			r2 := applySetAlg(a2.a, b2.a, opn)
			rb := &setBox[T]{sys: s, a: r2, next: a2.next + b2.next + 1000}
			for _, x := range r2.values() {
				rb.refAdd(x)
			}
			return rb
		}
		for _, o := range mkRes().Ops() {
			rb := mkRes()
			d := rb.Describe(o)
			v := safeStep(rb, o, nil)
			if v == nil {
				v = safeCheck(rb.CheckState, nil, "state observers of the result")
			}
			st.Nested["result_followup_transitions"]++
			if v != nil {
				return &Viol{Props: p, Class: v.Class, Msg: fmt.Sprintf("%s, then %s on the result: %s", desc, d, v.Msg)}
			}
		}
	}
	// independence: every single mutation of one of the three leaves the other two as they were
	type mut struct {
		name string
		f    func(x *setAPI[T])
	}
	var muts []mut
	for _, x := range append(append([]T{}, s.U...), s.Absent) {
		x := x
		muts = append(muts, mut{fmt.Sprintf("Add(%v)", x), func(t *setAPI[T]) { t.add(x) }})
		muts = append(muts, mut{fmt.Sprintf("Remove(%v)", x), func(t *setAPI[T]) { t.remove(x) }})
	}
	muts = append(muts, mut{"Clear()", func(t *setAPI[T]) { t.clear() }})
	render := func(t *setAPI[T]) string {
		v := fmtValsK(t.values())
		if !s.ordered() && !s.linked() {
			sort.Strings(v)
		}
		return fmt.Sprint(v, t.size())
	}
	shared := len(SharedMemory(r.obj, a.a.obj)) > 0 || len(SharedMemory(r.obj, b.a.obj)) > 0
	if shared {
		st.Nested["results_sharing_memory_with_operand"]++
	}
	for target := 0; target < 3; target++ {
		if same && target == 1 {
			continue
		}
		for _, m := range muts {
			a2, b2 := mk()
			r2 := applySetAlg(a2.a, b2.a, opn)
			objs := []*setAPI[T]{a2.a, b2.a, r2}
			before := []string{render(a2.a), render(b2.a), sortedRender(s, r2)}
			m.f(objs[target])
			st.Nested["independence_mutations"]++
			for o := 0; o < 3; o++ {
				if o == target || (same && o <= 1 && target <= 1) {
					continue
				}
				now := render(objs[o])
				if o == 2 {
					now = sortedRender(s, objs[o])
				}
				if now != before[o] {
					return viol(tag("C13", "C18"), "invariant", "%s: after %s on %s, %s changed from %s to %s (shared state)", desc,
						m.name, []string{"a", "b", "the result"}[target], []string{"a", "b", "the result"}[o], before[o], now)
				}
			}
		}
	}
	if shared {
		// reachable memory overlaps: also try every pair of Add mutations on two different objects
		for t1 := 0; t1 < 3; t1++ {
			for t2 := t1 + 1; t2 < 3; t2++ {
				if same && t1 == 0 && t2 == 1 {
					continue
				}
				for _, x := range s.U {
					for _, y := range s.U {
						a2, b2 := mk()
						r2 := applySetAlg(a2.a, b2.a, opn)
						objs := []*setAPI[T]{a2.a, b2.a, r2}
						objs[t1].add(x)
						exp1 := render(objs[t1])
						objs[t2].add(y)
						st.Nested["independence_mutation_pairs"]++
						if now := render(objs[t1]); now != exp1 && !(same && t1 <= 1 && t2 <= 1) {
							return viol(p, "invariant", "%s: Add(%v) on one set then Add(%v) on another changed the first from %s to %s (shared spare capacity)", desc, x, y, exp1, now)
						}
					}
				}
			}
		}
	}
	return nil
}

func sortedRender[T comparable](s *SetSys[T], t *setAPI[T]) string {
	v := fmtValsK(t.values())
	if !s.ordered() {
		sort.Strings(v) // LinkedHashSet results are built from a Go map range: their order is unspecified
	}
	return fmt.Sprint(v, t.size())
}

func setAlgJob[T comparable](j Job, r *JobResult, s *SetSys[T]) {
	build := func(p []Op) *setBox[T] {
		b := s.newBox()
		for _, o := range p {
			if v := b.Step(o); v != nil {
				panic("tool error: set prefix diverged: " + v.Msg)
			}
		}
		return b
	}
	if j.Replay != nil {
		var aux setalgAux
		json.Unmarshal(j.Replay.Aux, &aux)
		st := Stats{Nested: map[string]int{}}
		v := safeCheck(func() *Viol { return setAlgCase(s, j.Replay.Path, aux.PathB, aux.Same, aux.Op, &st, build) }, []string{"C13"}, "set algebra case")
		if v != nil && v.Has(j.Prop) {
			r.Found = &Found{V: v, Path: j.Replay.Path}
		}
		r.St = st
		return
	}
	e := &Explorer{Sys: s, Want: j.Prop, NoState: true, OutGuard: j.Prop == "C17", Beyond: true}
	if f := e.Run(); f != nil {
		r.Found = f
		r.St = e.St
		return
	}
	r.St = e.St
	paths := e.AllPaths()
	r.St.Nested["operand_states"] = len(paths)
	for ia, pa := range paths {
		for ib, pb := range paths {
			for _, opn := range setAlgOps {
				v := safeCheck(func() *Viol { return setAlgCase(s, pa, pb, false, opn, &r.St, build) }, []string{"C13"}, "set algebra case")
				if v == nil && ia == ib {
					v = safeCheck(func() *Viol { return setAlgCase(s, pa, pb, true, opn, &r.St, build) }, []string{"C13"}, "set algebra case")
					if v != nil {
						aux, _ := json.Marshal(setalgAux{PathB: pb, Same: true, Op: opn})
						r.Aux = aux
					}
				} else if v != nil {
					aux, _ := json.Marshal(setalgAux{PathB: pb, Same: false, Op: opn})
					r.Aux = aux
				}
				if v == nil && j.Prop == "C17" {
					v = outGuardCheck("set algebra case")
				}
				if v != nil && !v.Has(j.Prop) {
					v = nil
				}
				if v != nil {
					r.Found = &Found{V: v, Path: pa, Calls: append(append(describePath(s, pa, nil), "-- b built by:"), describePath(s, pb, nil)...)}
					r.St.Exhaustive = false
					return
				}
				r.St.Nested["pairs_x_ops"]++
			}
		}
	}
	if len(r.St.Samples) == 0 && len(paths) > 2 {
		r.St.Samples = append(r.St.Samples, map[string]any{"system": s.Name(), "a_built_by": describePath(s, paths[len(paths)-1], nil), "b_built_by": describePath(s, paths[len(paths)/2], nil), "ops": setAlgOps})
	}
}

func init() {
	jobKinds["setalg"] = func(j Job, r *JobResult) {
		s := intSetSys(j.s("c", ""), j.s("cmp", "nat"), j.p("u", 3))
		// single-element alphabet is enough to reach every state
		s.Tuples = nil
		for i := range s.U {
			s.Tuples = append(s.Tuples, []int{i})
		}
		setAlgJob(j, r, s)
	}
}

// ---- large and lopsided operands, both constructor forms ---------------------------
//
// a = {0..na-1} for every na up to a bound, b = every subset of {0, na/2, na-1, 100, 101}; all
// three operations in both orders; operands built by New() + Add and by New(values...) in all four
// combinations (the library recognises "the same comparator" by code pointer, so the constructor
// form must not matter).

func setAlgBig(j Job, r *JobResult, kind string, maxA int) {
	p := tag("C13")
	cmpNat := intCmp("nat")
	var mk func(form int, vals []int) *setAPI[int]
	forms := 2
	if kind != "hashset" {
		forms = 4 // the enumerable sets: operands that are themselves RESULTS of Select / Map
	}
	mk = func(form int, vals []int) *setAPI[int] { // form 0: New() then Add one by one; 1: New(values...); 2: Select(always) of form 1; 3: Map(identity) of form 0
		switch form {
		case 2:
			return mk(1, vals).selectF(func(int, int) bool { return true })
		case 3:
			return mk(0, vals).mapF(func(_ int, v int) int { return v })
		}
		switch kind {
		case "hashset":
			if form == 1 {
				return wrapHashSet(hashset.New(vals...))
			}
			s := hashset.New[int]()
			for _, v := range vals {
				s.Add(v)
			}
			return wrapHashSet(s)
		case "linkedhashset":
			if form == 1 {
				return wrapLinkedHashSet(linkedhashset.New(vals...))
			}
			s := linkedhashset.New[int]()
			for _, v := range vals {
				s.Add(v)
			}
			return wrapLinkedHashSet(s)
		case "treeset":
			if form == 1 {
				return wrapTreeSet(treeset.New(vals...))
			}
			s := treeset.New[int]()
			for _, v := range vals {
				s.Add(v)
			}
			return wrapTreeSet(s)
		}
		panic("setalgbig kind " + kind)
	}
	sys := &SetSys[int]{Kind: kind, CmpN: "nat", Cmp: cmpNat}
	r.St = Stats{Nested: map[string]int{}, PerSize: map[int]int{}, OpsHistogram: map[string]int{}, Exhaustive: true}
	for na := 0; na <= maxA; na++ {
		avals := intRange(0, na-1)
		cands := []int{0, na / 2, na - 1, 100, 101}
		var bsets [][]int
		for mask := 0; mask < 1<<uint(len(cands)); mask++ {
			var bvals []int
			seen := map[int]bool{}
			for i, c := range cands {
				if mask&(1<<uint(i)) != 0 && c >= 0 && !seen[c] {
					seen[c] = true
					bvals = append(bvals, c)
				}
			}
			bsets = append(bsets, bvals)
		}
		if na >= 8 && na%8 == 0 {
			// BOTH operands large: ranges that touch a in exactly one element (at its greatest, at its least),
			// that are adjacent without touching, that overlap by half, that equal a, and the even numbers
			// (after seeded change C13-15, a merge of two sorted operands of >= 32 elements each)
			var evens []int
			for v := 0; v <= 2*na; v += 2 {
				evens = append(evens, v)
			}
			bsets = append(bsets, intRange(na-1, 2*na), intRange(-na, 0), intRange(na, 2*na), intRange(na/2, na+na/2), intRange(0, na-1), evens)
		}
		for _, bvals := range bsets {
			for fc := 0; fc < forms*forms; fc++ {
				fa, fb := fc%forms, fc/forms
				for _, opn := range setAlgOps {
					for order := 0; order < 2; order++ {
						inflightSeq.Add(1)
						a, b := mk(fa, avals), mk(fb, bvals)
						x, y, xv, yv := a, b, avals, bvals
						if order == 1 {
							x, y, xv, yv = b, a, bvals, avals
						}
						kx, ky := Canon(CanonOpts{}, x.obj), Canon(CanonOpts{}, y.obj)
						var res *setAPI[int]
						v := safeCheck(func() *Viol {
							res = applySetAlg(x, y, opn)
							want := setMathResult(sys, opn, xv, yv)
							got := res.values()
							if !sameAsSet(sys, got, want) {
								return viol(p, "mismatch", "%s: {0..%d}%s / %v%s, %s (receiver first=%v): result %v, mathematical result %v", kind, na-1, formName(fa), bvals, formName(fb), opn, order == 0, got, want)
							}
							if kind == "treeset" {
								for i := 1; i < len(got); i++ {
									if got[i-1] >= got[i] {
										return viol(p, "mismatch", "%s: %s result %v is not in comparator order", kind, opn, got)
									}
								}
							}
							if Canon(CanonOpts{}, x.obj) != kx || Canon(CanonOpts{}, y.obj) != ky {
								return viol(tag("C13", "C18"), "invariant", "%s: %s on {0..%d} / %v changed an operand", kind, opn, na-1, bvals)
							}
							// the result is a working set: one Add and one Remove on it
							{
								exp := append([]int{}, want...)
								res.add(777)
								exp = append(exp, 777)
								if len(want) > 0 {
									res.remove(want[len(want)/2])
									exp = append(append([]int{}, exp[:len(want)/2]...), exp[len(want)/2+1:]...)
								}
								if g := res.values(); !sameAsSet(sys, g, exp) || res.size() != len(exp) || !res.contains(777) {
									return viol(p, "mismatch", "%s: {0..%d}%s / %v%s, %s (receiver first=%v), then Add(777) and one Remove on the result: %v (Size %d), want %v", kind, na-1, formName(fa), bvals, formName(fb), opn, order == 0, g, res.size(), exp)
								}
								if Canon(CanonOpts{}, x.obj) != kx || Canon(CanonOpts{}, y.obj) != ky {
									return viol(tag("C13", "C18"), "invariant", "%s: mutating the result of %s on {0..%d} / %v changed an operand", kind, opn, na-1, bvals)
								}
							}
							if sh := append(SharedMemory(res.obj, x.obj), SharedMemory(res.obj, y.obj)...); len(sh) > 0 {
								// behavioural confirmation: mutate the result, operands must not move
								res.add(555)
								res.remove(0)
								if Canon(CanonOpts{}, x.obj) != kx || Canon(CanonOpts{}, y.obj) != ky {
									return viol(tag("C13", "C18"), "invariant", "%s: the result of %s on {0..%d} / %v shares %v with an operand: mutating it changed the operand", kind, opn, na-1, bvals, sh)
								}
							}
							return nil
						}, []string{"C13"}, "set algebra on large operands")
						r.St.Transitions++
						r.St.Nested["large_operand_cases"]++
						if v == nil && j.Prop == "C17" {
							v = outGuardCheck("set algebra on large operands")
						}
						if v != nil && v.Has(j.Prop) {
							r.Found = &Found{V: v, Calls: []string{v.Msg}}
							r.St.Exhaustive = false
							return
						}
					}
				}
			}
		}
		r.St.States++
		r.St.PerSize[na]++
	}
	r.St.Samples = []any{map[string]any{"system": kind + " large operands", "a": "{0..na-1} for na = 0.." + fmt.Sprint(maxA), "b": "every subset of {0, na/2, na-1, 100, 101}", "operations": setAlgOps, "both_orders": true, "operand_forms": "New()+Add, New(values...), and for the enumerable sets Select(always) / Map(identity) results, in all combinations"}}
}

func formName(f int) string {
	return []string{" [New()+Add]", " [New(values...)]", " [New(values...).Select(always)]", " [(New()+Add).Map(identity)]"}[f]
}

func init() {
	jobKinds["setalgbig"] = func(j Job, r *JobResult) {
		setAlgBig(j, r, j.s("c", ""), j.p("maxa", 40))
	}
}
