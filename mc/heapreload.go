package main

// Large heaps that are emptied or reloaded after their observers ran: whatever an observer may have
// remembered about the old content (a sorted copy of a wide level, a cached Values()) must be gone after
// Clear / FromJSON as it is after Push / Pop.  For n around the level boundaries 63/64 .. 255/256, 300:
// n elements pushed, one observer (Values, String, a complete iteration, none), then Clear + FromJSON of n
// OTHER values | FromJSON alone | Clear + the other values pushed; afterwards Size, Peek, Values, iteration
// and the complete drain must be those of the new content.  (after seeded change C15-15)

import (
	"encoding/json"
	"fmt"
	"sort"
)

func heapReloadJob(j Job, r *JobResult) {
	c := j.s("c", "binaryheap")
	sys := scalarHeapSys[int](c, "min", 8, intRange(0, 3), -99, 0)
	r.St = Stats{Nested: map[string]int{}, PerSize: map[int]int{}, OpsHistogram: map[string]int{}, Exhaustive: true}
	p := tag("C15", "C06", "C12")
	for _, n := range []int{63, 64, 127, 128, 191, 192, 255, 256, 300} {
		for _, warm := range []string{"Values()", "String()", "a complete iteration", "no observer"} {
			for _, reload := range []string{"Clear() and FromJSON of other values", "FromJSON of other values", "Clear() and Push of other values"} {
				n, warm, reload := n, warm, reload
				inflightSeq.Add(1)
				v := safeCheck(func() *Viol {
					a := sys.newBox().a
					for i := 0; i < n; i++ {
						a.push(i)
					}
					switch warm {
					case "Values()":
						a.values()
					case "String()":
						a.str()
					case "a complete iteration":
						it := a.iter()
						for it.Next() {
							it.Cur()
						}
					}
					fresh := make([]int, n) // n other values, descending (the load has to restore the heap order)
					for i := range fresh {
						fresh[i] = 5000 + n - 1 - i
					}
					text, _ := json.Marshal(fresh)
					switch reload {
					case "Clear() and FromJSON of other values":
						a.clear()
						if a.size() != 0 || !a.empty() || len(a.values()) != 0 {
							return viol(p, "mismatch", "%s with %d elements after %s: Clear() leaves Size() = %d, Values() = %v", a.name, n, warm, a.size(), a.values())
						}
						if err := a.from(text); err != nil {
							return viol(tag("C12"), "mismatch", "FromJSON failed: %v", err)
						}
					case "FromJSON of other values":
						if err := a.from(text); err != nil {
							return viol(tag("C12"), "mismatch", "FromJSON failed: %v", err)
						}
					default:
						a.clear()
						for _, x := range fresh {
							a.push(x)
						}
					}
					what := fmt.Sprintf("%s: %d elements pushed, %s, then %s", a.name, n, warm, reload)
					want := append([]int{}, fresh...)
					sort.Ints(want)
					if a.size() != n {
						return viol(p, "mismatch", "%s: Size() = %d, want %d", what, a.size(), n)
					}
					if v, ok := a.peek(); !ok || v != want[0] {
						return viol(p, "mismatch", "%s: Peek() = (%v, %v), the least element is %d", what, v, ok, want[0])
					}
					vals := a.values()
					first := -1
					if len(vals) > 0 {
						first = vals[0]
					}
					sort.Ints(vals)
					if !seqEq(vals, want) || first != want[0] {
						return viol(p, "mismatch", "%s: Values() (sorted: %s) is not a permutation of the new contents headed by %d", what, clipSlice(vals), want[0])
					}
					fwd, bwd := iterInts(a.iter(), true)
					sort.Ints(fwd)
					sort.Ints(bwd)
					if !seqEq(fwd, want) || !seqEq(bwd, want) {
						return viol(tag("C15", "C06", "C08"), "mismatch", "%s: iteration yields (sorted) %s, the new contents are %d..%d", what, clipSlice(fwd), want[0], want[n-1])
					}
					for i := 0; i < n; i++ {
						if v, ok := a.pop(); !ok || v != want[i] {
							return viol(p, "mismatch", "%s: Pop #%d = (%v, %v), want %d", what, i, v, ok, want[i])
						}
					}
					if !a.empty() {
						return viol(p, "mismatch", "%s: not empty after %d Pops", what, n)
					}
					r.St.Transitions++
					return nil
				}, []string{"C15", "C06"}, "heap reload")
				if v == nil && j.Prop == "C17" {
					v = outGuardCheck("heap reload")
				}
				r.St.States++
				if v != nil && v.Has(j.Prop) {
					r.Found = &Found{V: v, Calls: []string{v.Msg}}
					r.St.Exhaustive = false
					return
				}
			}
		}
	}
	r.St.Samples = []any{map[string]any{"system": sys.Name(), "family": "n in {63,64,127,128,191,192,255,256,300} x observer in {Values, String, iteration, none} x {Clear+FromJSON, FromJSON, Clear+Push} of n other values"}}
}

func init() { jobKinds["heapreload"] = heapReloadJob }
