package main

// Bulk operations on already large lists: every combination of a list of n elements (grown one at a
// time, or loaded by one bulk call and trimmed) with one Add / Insert of b values, for n around the
// growth steps 510 / 1022 / 2046 and b from 258 to 1100 — a growth policy that changes with the
// capacity and forgets the batch size shows only there (after seeded change C17-15).  The result is
// compared with the abstract sequence, the argument slice is the caller's afterwards.

import "fmt"

func bulkLargeJob(j Job, r *JobResult) {
	c := j.s("c", "arraylist")
	sys := intListSys(c, 8, 3)
	r.St = Stats{Nested: map[string]int{}, PerSize: map[int]int{}, OpsHistogram: map[string]int{}, Exhaustive: true}
	p := tag("C03", "C16")
	type scen struct {
		what  string
		build func(a *listAPI[int]) []int
	}
	var scens []scen
	for _, n := range []int{510, 1022, 1023, 1100, 2046, 2100} {
		n := n
		scens = append(scens, scen{fmt.Sprintf("%d elements added one at a time", n), func(a *listAPI[int]) []int {
			var ref []int
			for i := 0; i < n; i++ {
				a.add(i)
				ref = append(ref, i)
			}
			return ref
		}})
	}
	for _, s0 := range []int{600, 1100} {
		s0 := s0
		scens = append(scens, scen{fmt.Sprintf("%d elements added in one call, 100 removed from the front", s0), func(a *listAPI[int]) []int {
			ref := intRange(0, s0-1)
			a.add(argSlice(ref)...)
			for i := 0; i < 100; i++ {
				a.remove(0)
			}
			return append([]int{}, ref[100:]...)
		}})
	}
	for _, sc := range scens {
		for _, b := range []int{258, 300, 600, 1100} {
			for _, how := range []string{"Add", "Insert(size/2)", "Insert(0)", "Insert(size)"} {
				sc, b, how := sc, b, how
				inflightSeq.Add(1)
				v := safeCheck(func() *Viol {
					a := sys.newAPI()
					ref := sc.build(a)
					batch := intRange(1000000, 1000000+b-1)
					arg := argSlice(batch)
					at := len(ref)
					switch how {
					case "Add":
						a.add(arg...)
					case "Insert(size/2)":
						at = len(ref) / 2
						a.insert(at, arg...)
					case "Insert(0)":
						at = 0
						a.insert(at, arg...)
					default:
						a.insert(at, arg...)
					}
					want := append(append(append([]int{}, ref[:at]...), batch...), ref[at:]...)
					what := fmt.Sprintf("%s: %s, then %s with %d values", a.name, sc.what, how, b)
					if got := a.values(); !eqSlice(got, want) || a.size() != len(want) {
						return viol(p, "mismatch", "%s: Size() = %d, Values() differs from the abstract sequence of %d elements", what, a.size(), len(want))
					}
					scribble(arg, -99)
					if got := a.values(); !eqSlice(got, want) {
						return viol(tag("C16"), "invariant", "%s: writing to the caller's argument slice afterwards changed the list", what)
					}
					if v, ok := a.get(at); !ok || v != want[at] {
						return viol(p, "mismatch", "%s: Get(%d) = (%v, %v), abstract sequence has %d", what, at, v, ok, want[at])
					}
					r.St.Transitions++
					return nil
				}, []string{"C03"}, "bulk operation on a large list")
				if v == nil && j.Prop == "C17" {
					v = outGuardCheck("bulk operation on a large list")
				}
				r.St.States++
				if v != nil && v.Has(j.Prop) {
					r.Found = &Found{V: v, Calls: []string{v.Msg}}
					r.St.Exhaustive = false
					return
				}
			}
		}
	}
	r.St.Samples = []any{map[string]any{"system": c, "family": "lists of 510..2100 elements (grown singly, or loaded in one call and trimmed) x one Add / Insert(0 | size/2 | size) of 258, 300, 600, 1100 values"}}
}

func init() { jobKinds["bulklarge"] = bulkLargeJob }
