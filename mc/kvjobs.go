package main

import (
	"cmp"
	"fmt"
	"github.com/emirpasic/gods/v2/sets/treeset"
	"math"

	"github.com/emirpasic/gods/v2/maps/treebidimap"
	"github.com/emirpasic/gods/v2/maps/treemap"
	"github.com/emirpasic/gods/v2/trees/avltree"
	"github.com/emirpasic/gods/v2/trees/btree"
	"github.com/emirpasic/gods/v2/trees/redblacktree"
)

func keyCmp(name string) func(a, b Key) int {
	switch name {
	case "rev":
		// reversed and un-normalised: magnitudes 1, 200, 256, 2^40 depending on the operands — only the
		// sign may matter (200 and 256 flip sign / vanish when narrowed to int8, 2^40 when narrowed to int32)
		mags := []int{1, 200, 256, 1 << 40}
		return func(a, b Key) int {
			m := mags[int(uint64(a.C/Rank(prepStep)+b.C/Rank(prepStep))%4)]
			switch {
			case a.C < b.C:
				return m
			case a.C > b.C:
				return -m
			}
			return 0
		}
	case "big":
		return func(a, b Key) int {
			switch {
			case a.C < b.C:
				return -4_000_000_000
			case a.C > b.C:
				return 4_000_000_000
			}
			return 0
		}
	case "ext": // natural order, EXTREME magnitudes: math.MinInt / 0 / math.MaxInt (negating MinInt overflows)
		return func(a, b Key) int {
			switch {
			case a.C < b.C:
				return math.MinInt
			case a.C > b.C:
				return math.MaxInt
			}
			return 0
		}
	default: // nat, coarse (coarse = many representatives R per class C)
		return func(a, b Key) int {
			switch {
			case a.C < b.C:
				return -1
			case a.C > b.C:
				return 1
			}
			return 0
		}
	}
}

func intCmp(name string) func(a, b int) int {
	switch name {
	case "rev": // differences of arbitrary magnitude (only the sign may matter), overflow-safe
		return func(a, b int) int {
			d := b - a
			if (b >= a) != (d >= 0) || d > 1<<40 || d < -(1<<40) { // overflow or huge: saturate
				if b > a {
					d = 1 << 40
				} else {
					d = -(1 << 40)
				}
			}
			return d * 7
		}
	case "ext":
		return func(a, b int) int {
			switch {
			case a < b:
				return math.MinInt
			case a > b:
				return math.MaxInt
			}
			return 0
		}
	case "big": // natural order, magnitude 4e9: the PRODUCT of two results overflows int64 (and changes sign)
		return func(a, b int) int {
			switch {
			case a < b:
				return -4_000_000_000
			case a > b:
				return 4_000_000_000
			}
			return 0
		}
	case "coarse":
		return func(a, b int) int { return a/2 - b/2 }
	case "coarsej": // ties between the JSON grammar's keys 1 and 2
		h := func(a int) int {
			if a == math.MaxInt {
				return a/2 + 1
			}
			return (a + 1) / 2
		}
		return func(a, b int) int { return h(a) - h(b) }
	default:
		return func(a, b int) int {
			switch {
			case a < b:
				return -1
			case a > b:
				return 1
			}
			return 0
		}
	}
}

// intU: the integer universe {0, .., u-1} — it contains the zero value of the element type on
// purpose (a 0 element must be distinguishable from a cleared slot / a "not found" answer).
func intU(u int) []int {
	if intUniverseMode == "json" {
		// JSON jobs: negative, multi-digit and prefix-related integers (as object keys "1", "10", "100", "-1")
		all := []int{0, -1, 10, 1, 100, -20, 12, 1000}
		if u > len(all) {
			u = len(all)
		}
		return all[:u]
	}
	return intRange(0, u-1)
}

// intUniverseMode is set once per worker process from the job ("intset").
var intUniverseMode string

func intRange(lo, hi int) []int {
	var r []int
	for i := lo; i <= hi; i++ {
		r = append(r, i)
	}
	return r
}

var kvProps = []string{"C01", "C02", "C07", "C10", "C15", "C09"}

// floatDefaultSys: the default constructors with float64 keys, NaN included — under cmp.Compare NaN
// is an ordinary key (the least one, equal to itself).
func floatDefaultSys(j Job) Sys {
	kind, order := j.s("c", "rbt"), j.p("m", 3)
	ku := []float64{math.NaN(), -1.5, 0, 2.25, math.Inf(1)}
	sys := &KVSys[float64, Val]{Kind: kind, Order: order, CmpN: "nat", N: len(ku), KU: ku, Label: "/New()/float64",
		Fresh: func(i int) Val { return Val(i) }, KCmp: cmp.Compare[float64], VCmp: func(a, b Val) int { return int(a - b) }, PropsL: kvProps,
		Probes: func(live []float64) []float64 { return []float64{-7, 1, math.Inf(-1)} }}
	if kind == "treeset" {
		sys.Fresh = func(i int) Val { return 0 }
	}
	sys.Custom = func(b *kvBox[float64, Val]) *kvAPI[float64, Val] {
		switch kind {
		case "rbt":
			return wrapRBT(redblacktree.New[float64, Val]())
		case "avl":
			return wrapAVL(avltree.New[float64, Val]())
		case "btree":
			return wrapBT(btree.New[float64, Val](order), order)
		case "treemap":
			return wrapTreeMap(treemap.New[float64, Val]())
		case "treeset":
			return wrapTreeSetKV[float64, Val](treeset.New[float64]())
		}
		panic("tool error: no float default constructor job for " + kind)
	}
	return sys
}

func kvSysFromJob(j Job) Sys {
	if j.s("elem", "") == "float" && j.s("ctor", "") == "default" {
		return floatDefaultSys(j)
	}
	kind := j.s("c", "rbt")
	if ts := typedSysFor(kind, j); ts != nil {
		return ts
	}
	cmpN, vcmpN := j.s("cmp", "nat"), j.s("vcmp", "nat")
	if j.p("rank", 0) == 1 {
		fresh := func(i int) Val { return Val(i) }
		if kind == "treeset" {
			fresh = func(i int) Val { return 0 }
		}
		return &KVSys[Key, Val]{Kind: kind, Order: j.p("m", 3), CmpN: cmpN, N: j.p("n", 8), Rank: true, Lite: j.p("lite", 0) == 1,
			Fresh: fresh, KCmp: keyCmp(cmpN), VCmp: func(a, b Val) int { return int(a - b) }, PropsL: kvProps}
	}
	u := j.p("u", 4)
	if kind == "treebidimap" || kind == "hashbidimap" {
		sys := &KVSys[int, int]{Kind: kind, CmpN: cmpN, VCmpN: vcmpN, N: j.p("n", u), KU: intU(u), VU: intU(j.p("vu", u)),
			KCmp: intCmp(cmpN), VCmp: intCmp(vcmpN), PropsL: kvProps,
			Probes: func(live []int) []int { return []int{-2, u + 2} }}
		if j.p("jsonops", 0) == 1 && kind == "hashbidimap" {
			// only inputs whose loaded state is deterministic (no repeated values: the library folds Put over
			// a Go map range); tree-based maps get no FromJSON operation at all — their shape after a load
			// depends on the map order, which would break the determinism the search relies on (C12 covers them)
			sys.JSONTexts = []string{`{}`, `null`, `{"1":1,"0":2}`, `{"0":0}`}
		}
		if j.s("ctor", "") == "default" && kind == "treebidimap" {
			sys.Label = "/New()"
			sys.KCmp, sys.VCmp = intCmp("nat"), intCmp("nat")
			sys.Custom = func(b *kvBox[int, int]) *kvAPI[int, int] { return wrapTreeBidiMap(treebidimap.New[int, int]()) }
		}
		return sys
	}
	sys := &KVSys[int, Val]{Kind: kind, Order: j.p("m", 3), CmpN: cmpN, N: j.p("n", u), KU: intU(u),
		Fresh: func(i int) Val { return Val(i) }, KCmp: intCmp(cmpN), VCmp: func(a, b Val) int { return int(a - b) }, PropsL: kvProps,
		Probes: func(live []int) []int { return []int{-2, u + 2} }}
	if j.p("jsonops", 0) == 1 && (kind == "hashmap" || kind == "linkedhashmap") {
		sys.JSONTexts = []string{`{}`, `null`, `{"0":5,"1":5}`, `{"1":null}`}
	}
	if j.s("ctor", "") == "default" {
		// the default constructors New[K cmp.Ordered]() (natural order through cmp.Compare)
		sys.Label = "/New()"
		sys.KCmp = intCmp("nat")
		order := sys.Order
		sys.Custom = func(b *kvBox[int, Val]) *kvAPI[int, Val] {
			switch kind {
			case "rbt":
				return wrapRBT(redblacktree.New[int, Val]())
			case "avl":
				return wrapAVL(avltree.New[int, Val]())
			case "btree":
				return wrapBT(btree.New[int, Val](order), order)
			case "treemap":
				return wrapTreeMap(treemap.New[int, Val]())
			}
			panic("tool error: no default constructor job for " + kind)
		}
	}
	return sys
}

func init() {
	jobKinds["kv"] = func(j Job, r *JobResult) {
		s := kvSysFromJob(j)
		exploreJob(j, r, s, func(e *Explorer) {
			if j.Prop == "C07" && j.p("rank", 0) == 1 {
				e.OnState = func(path []Op, build func() Inst, st *Stats) *Viol {
					if h, ok := build().(Box).Obj().(interface{ Height() int }); ok {
						st.Nested[fmt.Sprintf("btree_states_height_%d", h.Height())]++
					}
					return nil
				}
			}
		})
	}
}

// kvTreeJobs: the rank-abstract tree searches shared by C01, C02 and C07.
func kvTreeJobs(prop string, q bool, add func(kind, id string, w int, s map[string]string, p map[string]int)) {
	pick := func(a, b int) int {
		if q {
			return a
		}
		return b
	}
	type tb struct {
		c    string
		m, n int
	}
	// order 4 reaches height 4 at 22 keys: 123 k states, 17 min - once (C02), not in every re-run of these jobs
	b4 := 18
	if prop == "C02" {
		b4 = 23
	}
	trees := []tb{
		{"rbt", 0, pick(12, 16)}, {"avl", 0, pick(13, 17)}, {"treemap", 0, pick(10, 13)}, {"treeset", 0, pick(10, 13)},
		{"btree", 3, pick(18, 24)}, {"btree", 4, pick(15, b4)}, {"btree", 5, pick(21, 24)}, {"btree", 6, pick(24, 28)},
	}
	if !q {
		trees = append(trees, tb{"btree", 7, 36}, tb{"btree", 8, 20}, tb{"btree", 9, 20})
	}
	// high orders: a node holds up to m-1 keys, so the in-node search dominates the work; the
	// tree is a single root until m keys are alive (one state per size under the rank abstraction)
	// (the bound stays a few keys above the first split: beyond it the number of shapes grows
	// quadratically with n and the deep replays make each one expensive)
	for _, hm := range [][2]int{{32, pick(40, 48)}, {64, pick(70, 80)}, {128, pick(132, 144)}} {
		id := fmt.Sprintf("btree%d.nat.n%d", hm[0], hm[1])
		add("kv", id, hm[1]*hm[1], map[string]string{"c": "btree", "cmp": "nat"}, map[string]int{"m": hm[0], "n": hm[1], "rank": 1, "lite": 1})
	}
	// wide nodes under comparators whose results are not -1/0/+1 (differences of large magnitude, MinInt/MaxInt,
	// +-4e9): an in-node search must use nothing but the sign (after seeded change C02-16)
	for _, cm := range []string{"rev", "ext", "big"} {
		n := pick(40, 48)
		add("kv", fmt.Sprintf("btree32.%s.n%d", cm, n), n*n, map[string]string{"c": "btree", "cmp": cm}, map[string]int{"m": 32, "n": n, "rank": 1, "lite": 1})
	}
	// large trees under non-monotone histories (family.go churnJob)
	cu := pick(48, 96)
	// (orders 6, 7, 9: an inner node of height 3 next to a FULL inner sibling - where a borrow may move more than
	// one subtree - needs ~30 keys at order 6 and more above; after seeded change C17-14)
	for _, t := range []tb{{"rbt", 0, cu}, {"avl", 0, cu}, {"treemap", 0, cu}, {"treeset", 0, cu}, {"btree", 3, cu}, {"btree", 4, cu}, {"btree", 5, cu}, {"btree", 6, cu}, {"btree", 7, cu + 16}, {"btree", 8, cu}, {"btree", 9, cu + 32}} {
		for _, c := range []string{"nat", "rev"} {
			id := fmt.Sprintf("%s%s.%s.churn.u%d", t.c, map[bool]string{true: fmt.Sprint(t.m), false: ""}[t.m > 0], c, t.n)
			add("churn", id, cu*4, map[string]string{"c": t.c, "cmp": c}, map[string]int{"m": t.m, "u": t.n})
		}
	}
	// comparators that answer math.MinInt / 0 / math.MaxInt: a valid order whose results cannot be negated
	for _, t := range []tb{{"rbt", 0, pick(9, 11)}, {"avl", 0, pick(9, 11)}, {"treemap", 0, pick(8, 10)}, {"treeset", 0, pick(8, 10)}, {"btree", 3, pick(11, 14)}, {"btree", 4, pick(11, 14)}} {
		for _, cm := range []string{"ext", "big"} {
			id := fmt.Sprintf("%s%s.%s.n%d", t.c, map[bool]string{true: fmt.Sprint(t.m), false: ""}[t.m > 0], cm, t.n)
			add("kv", id, t.n*t.n, map[string]string{"c": t.c, "cmp": cm}, map[string]int{"m": t.m, "n": t.n, "rank": 1})
		}
	}
	for _, t := range trees {
		for _, c := range []string{"nat", "rev", "coarse"} {
			n := t.n
			if c != "nat" && t.c != "treemap" && t.c != "treeset" {
				n = t.n - pick(2, 2) // the comparator variants explore the same shapes; slightly smaller bound
			}
			id := fmt.Sprintf("%s%s.%s.n%d", t.c, map[bool]string{true: fmt.Sprint(t.m), false: ""}[t.m > 0], c, n)
			add("kv", id, n*n, map[string]string{"c": t.c, "cmp": c}, map[string]int{"m": t.m, "n": n, "rank": 1})
		}
	}
}

// ---- history families at larger sizes (bidirectional tree maps) --------------------------------
//
// The product of the two trees' shapes makes a fixpoint search of TreeBidiMap infeasible beyond a
// handful of pairs, but defects of the underlying tree need ten or more entries.  Instead of the
// fixpoint this job enumerates a FAMILY of histories exhaustively: every fill order of u pairs from
// {ascending, descending, zig-zag from both ends, inside-out} x value order {same, reversed, rotated},
// followed by every single Remove(k) and every single Put(k, v) over the whole universe (exact
// repeat, same key new value, new value held elsewhere, both colliding).  Every step runs the box's
// transition oracle, every final state its state oracle.
func kvFamilyJob(j Job, r *JobResult) {
	u := j.p("u", 24)
	jj := j
	jj.P = map[string]int{"u": u, "vu": u}
	for k, v := range j.P {
		if k != "u" {
			jj.P[k] = v
		}
	}
	sys := kvSysFromJob(jj)
	orders := map[string][]int{}
	asc := intRange(0, u-1)
	desc := make([]int, u)
	zig := make([]int, 0, u)
	inside := make([]int, 0, u)
	for i := 0; i < u; i++ {
		desc[i] = u - 1 - i
	}
	for lo, hi := 0, u-1; lo <= hi; lo, hi = lo+1, hi-1 {
		zig = append(zig, lo)
		if hi != lo {
			zig = append(zig, hi)
		}
	}
	for d := 0; len(inside) < u; d++ {
		for _, k := range []int{u/2 - d - 1, u/2 + d} {
			if k >= 0 && k < u && len(inside) < u {
				dup := false
				for _, x := range inside {
					if x == k {
						dup = true
					}
				}
				if !dup {
					inside = append(inside, k)
				}
			}
		}
	}
	orders["ascending"], orders["descending"], orders["zigzag"], orders["inside-out"] = asc, desc, zig, inside
	valueOf := map[string]func(k int) int{
		"same":     func(k int) int { return k },
		"reversed": func(k int) int { return u - 1 - k },
		"rotated":  func(k int) int { return (k + u/3) % u },
	}
	r.St = Stats{Nested: map[string]int{}, PerSize: map[int]int{}, OpsHistogram: map[string]int{}, Exhaustive: true}
	run := func(path []Op, what string) *Viol {
		inflightSeq.Add(1)
		in := sys.New()
		for i, o := range path {
			desc := in.Describe(o)
			if v := safeStep(in, o, sys.Props()); v != nil {
				v.Msg = fmt.Sprintf("%s, step %d %s: %s", what, i, desc, v.Msg)
				return v
			}
		}
		if v := safeCheck(in.CheckState, sys.Props(), "state observers"); v != nil {
			v.Msg = what + ": " + v.Msg
			return v
		}
		r.St.Transitions++
		return nil
	}
	report := func(v *Viol, path []Op) bool {
		if v == nil && j.Prop == "C17" {
			v = outGuardCheck("history family")
		}
		if v != nil && v.Has(j.Prop) {
			r.Found = &Found{V: v, Path: path, Calls: describePath(sys, path, nil)}
			r.St.Exhaustive = false
			return true
		}
		return false
	}
	if j.Replay != nil {
		report(run(j.Replay.Path, "replayed history"), j.Replay.Path)
		return
	}
	for on, ord := range orders {
		for vn, vf := range valueOf {
			var fill []Op
			for _, k := range ord {
				fill = append(fill, op("put", k, vf(k)))
			}
			what := fmt.Sprintf("%d pairs filled %s, values %s", u, on, vn)
			if report(run(fill, what), fill) {
				return
			}
			r.St.States++
			for k := 0; k < u; k++ {
				p := append(append([]Op{}, fill...), op("del", k))
				if report(run(p, what+", then one Remove"), p) {
					return
				}
				for v := 0; v < u; v++ {
					p := append(append([]Op{}, fill...), op("put", k, v))
					if report(run(p, what+", then one Put"), p) {
						return
					}
				}
			}
			r.St.Nested["history_families"]++
		}
	}
	r.St.Samples = []any{map[string]any{"system": sys.Name(), "family": "fill orders {ascending, descending, zigzag, inside-out} x value orders {same, reversed, rotated}, then every single Remove(k) and every single Put(k, v)", "pairs": u}}
}

func init() { jobKinds["kvfamily"] = kvFamilyJob }
