package main

import (
	"cmp"
	"fmt"
	"math"

	"github.com/emirpasic/gods/v2/maps/treebidimap"
	"github.com/emirpasic/gods/v2/maps/treemap"
	"github.com/emirpasic/gods/v2/trees/avltree"
	"github.com/emirpasic/gods/v2/trees/btree"
	"github.com/emirpasic/gods/v2/trees/redblacktree"
)

func keyCmp(name string) func(a, b Key) int {
	switch name {
	case "rev":
		// reversed and un-normalised: magnitudes 1, 200, 256, 2^40 depending on the operands — only the
		// sign may matter (200 and 256 flip sign / vanish when narrowed to int8, 2^40 when narrowed to int32)
		mags := []int{1, 200, 256, 1 << 40}
		return func(a, b Key) int {
			m := mags[int(uint64(a.C/Rank(prepStep)+b.C/Rank(prepStep))%4)]
			switch {
			case a.C < b.C:
				return m
			case a.C > b.C:
				return -m
			}
			return 0
		}
	default: // nat, coarse (coarse = many representatives R per class C)
		return func(a, b Key) int {
			switch {
			case a.C < b.C:
				return -1
			case a.C > b.C:
				return 1
			}
			return 0
		}
	}
}

func intCmp(name string) func(a, b int) int {
	switch name {
	case "rev":
		return func(a, b int) int { return (b - a) * 7 }
	case "coarse":
		return func(a, b int) int { return a/2 - b/2 }
	case "coarsej": // ties between the JSON grammar's keys 1 and 2
		return func(a, b int) int { return (a+1)/2 - (b+1)/2 }
	default:
		return func(a, b int) int {
			switch {
			case a < b:
				return -1
			case a > b:
				return 1
			}
			return 0
		}
	}
}

// intU: the integer universe {0, .., u-1} — it contains the zero value of the element type on
// purpose (a 0 element must be distinguishable from a cleared slot / a "not found" answer).
func intU(u int) []int {
	if intUniverseMode == "json" {
		// JSON jobs: negative, multi-digit and prefix-related integers (as object keys "1", "10", "100", "-1")
		all := []int{0, -1, 10, 1, 100, -20, 12, 1000}
		if u > len(all) {
			u = len(all)
		}
		return all[:u]
	}
	return intRange(0, u-1)
}

// intUniverseMode is set once per worker process from the job ("intset").
var intUniverseMode string

func intRange(lo, hi int) []int {
	var r []int
	for i := lo; i <= hi; i++ {
		r = append(r, i)
	}
	return r
}

var kvProps = []string{"C01", "C02", "C07", "C10", "C15", "C09"}

// floatDefaultSys: the default constructors with float64 keys, NaN included — under cmp.Compare NaN
// is an ordinary key (the least one, equal to itself).
func floatDefaultSys(j Job) Sys {
	kind, order := j.s("c", "rbt"), j.p("m", 3)
	ku := []float64{math.NaN(), -1.5, 0, 2.25, math.Inf(1)}
	sys := &KVSys[float64, Val]{Kind: kind, Order: order, CmpN: "nat", N: len(ku), KU: ku, Label: "/New()/float64",
		Fresh: func(i int) Val { return Val(i) }, KCmp: cmp.Compare[float64], VCmp: func(a, b Val) int { return int(a - b) }, PropsL: kvProps,
		Probes: func(live []float64) []float64 { return []float64{-7, 1, math.Inf(-1)} }}
	sys.Custom = func(b *kvBox[float64, Val]) *kvAPI[float64, Val] {
		switch kind {
		case "rbt":
			return wrapRBT(redblacktree.New[float64, Val]())
		case "avl":
			return wrapAVL(avltree.New[float64, Val]())
		case "btree":
			return wrapBT(btree.New[float64, Val](order), order)
		case "treemap":
			return wrapTreeMap(treemap.New[float64, Val]())
		}
		panic("tool error: no float default constructor job for " + kind)
	}
	return sys
}

func kvSysFromJob(j Job) Sys {
	if j.s("elem", "") == "float" && j.s("ctor", "") == "default" {
		return floatDefaultSys(j)
	}
	kind := j.s("c", "rbt")
	cmpN, vcmpN := j.s("cmp", "nat"), j.s("vcmp", "nat")
	if j.p("rank", 0) == 1 {
		fresh := func(i int) Val { return Val(i) }
		if kind == "treeset" {
			fresh = func(i int) Val { return 0 }
		}
		return &KVSys[Key, Val]{Kind: kind, Order: j.p("m", 3), CmpN: cmpN, N: j.p("n", 8), Rank: true, Lite: j.p("lite", 0) == 1,
			Fresh: fresh, KCmp: keyCmp(cmpN), VCmp: func(a, b Val) int { return int(a - b) }, PropsL: kvProps}
	}
	u := j.p("u", 4)
	if kind == "treebidimap" || kind == "hashbidimap" {
		sys := &KVSys[int, int]{Kind: kind, CmpN: cmpN, VCmpN: vcmpN, N: j.p("n", u), KU: intU(u), VU: intU(j.p("vu", u)),
			KCmp: intCmp(cmpN), VCmp: intCmp(vcmpN), PropsL: kvProps,
			Probes: func(live []int) []int { return []int{-2, u + 2} }}
		if j.s("ctor", "") == "default" && kind == "treebidimap" {
			sys.Label = "/New()"
			sys.KCmp, sys.VCmp = intCmp("nat"), intCmp("nat")
			sys.Custom = func(b *kvBox[int, int]) *kvAPI[int, int] { return wrapTreeBidiMap(treebidimap.New[int, int]()) }
		}
		return sys
	}
	sys := &KVSys[int, Val]{Kind: kind, Order: j.p("m", 3), CmpN: cmpN, N: j.p("n", u), KU: intU(u),
		Fresh: func(i int) Val { return Val(i) }, KCmp: intCmp(cmpN), VCmp: func(a, b Val) int { return int(a - b) }, PropsL: kvProps,
		Probes: func(live []int) []int { return []int{-2, u + 2} }}
	if j.s("ctor", "") == "default" {
		// the default constructors New[K cmp.Ordered]() (natural order through cmp.Compare)
		sys.Label = "/New()"
		sys.KCmp = intCmp("nat")
		order := sys.Order
		sys.Custom = func(b *kvBox[int, Val]) *kvAPI[int, Val] {
			switch kind {
			case "rbt":
				return wrapRBT(redblacktree.New[int, Val]())
			case "avl":
				return wrapAVL(avltree.New[int, Val]())
			case "btree":
				return wrapBT(btree.New[int, Val](order), order)
			case "treemap":
				return wrapTreeMap(treemap.New[int, Val]())
			}
			panic("tool error: no default constructor job for " + kind)
		}
	}
	return sys
}

func init() {
	jobKinds["kv"] = func(j Job, r *JobResult) {
		s := kvSysFromJob(j)
		exploreJob(j, r, s, func(e *Explorer) {
			if j.Prop == "C07" && j.p("rank", 0) == 1 {
				e.OnState = func(path []Op, build func() Inst, st *Stats) *Viol {
					if h, ok := build().(Box).Obj().(interface{ Height() int }); ok {
						st.Nested[fmt.Sprintf("btree_states_height_%d", h.Height())]++
					}
					return nil
				}
			}
		})
	}
}

// kvTreeJobs: the rank-abstract tree searches shared by C01, C02 and C07.
func kvTreeJobs(prop string, q bool, add func(kind, id string, w int, s map[string]string, p map[string]int)) {
	pick := func(a, b int) int {
		if q {
			return a
		}
		return b
	}
	type tb struct {
		c    string
		m, n int
	}
	trees := []tb{
		{"rbt", 0, pick(12, 16)}, {"avl", 0, pick(13, 17)}, {"treemap", 0, pick(10, 13)}, {"treeset", 0, pick(10, 13)},
		{"btree", 3, pick(14, 20)}, {"btree", 4, pick(13, 18)}, {"btree", 5, pick(21, 24)}, {"btree", 6, pick(24, 28)},
	}
	if !q {
		trees = append(trees, tb{"btree", 7, 36}, tb{"btree", 8, 20}, tb{"btree", 9, 20})
	}
	// high orders: a node holds up to m-1 keys, so the in-node search dominates the work; the
	// tree is a single root until m keys are alive (one state per size under the rank abstraction)
	// (the bound stays a few keys above the first split: beyond it the number of shapes grows
	// quadratically with n and the deep replays make each one expensive)
	for _, hm := range [][2]int{{32, pick(40, 48)}, {64, pick(70, 80)}, {128, pick(132, 144)}} {
		id := fmt.Sprintf("btree%d.nat.n%d", hm[0], hm[1])
		add("kv", id, hm[1]*hm[1], map[string]string{"c": "btree", "cmp": "nat"}, map[string]int{"m": hm[0], "n": hm[1], "rank": 1, "lite": 1})
	}
	for _, t := range trees {
		for _, c := range []string{"nat", "rev", "coarse"} {
			n := t.n
			if c != "nat" && t.c != "treemap" && t.c != "treeset" {
				n = t.n - pick(2, 2) // the comparator variants explore the same shapes; slightly smaller bound
			}
			id := fmt.Sprintf("%s%s.%s.n%d", t.c, map[bool]string{true: fmt.Sprint(t.m), false: ""}[t.m > 0], c, n)
			add("kv", id, n*n, map[string]string{"c": t.c, "cmp": c}, map[string]int{"m": t.m, "n": n, "rank": 1})
		}
	}
}
