package main

// Explicit-state search over the REAL containers (DESIGN.md §2.1).
//
// A state is remembered as the shortest operation path that reaches it; a
// successor is produced by replaying that path on a fresh instance and applying
// one more operation; states are deduplicated by the canonical heap fingerprint
// (canon.go).  The search runs to a fixpoint under a live-size bound, so the
// result speaks about histories of any length inside the bound.

import (
	"crypto/sha256"
	"fmt"
	"runtime/debug"
	"strconv"
	"strings"
	"sync/atomic"
	"time"
)

// Op is one operation of an alphabet; A are small integer arguments whose
// meaning the system defines (universe indices, ranks, gaps, list indices).
type Op struct {
	N string `json:"n"`
	A []int  `json:"a,omitempty"`
}

func (o Op) String() string {
	if len(o.A) == 0 {
		return o.N
	}
	s := make([]string, len(o.A))
	for i, a := range o.A {
		s[i] = strconv.Itoa(a)
	}
	return o.N + "(" + strings.Join(s, ",") + ")"
}

func op(n string, a ...int) Op { return Op{N: n, A: a} }

// Viol is one violation found on the real code.
type Viol struct {
	Props []string `json:"props"` // property ids this observation violates
	Class string   `json:"class"` // mismatch | invariant | panic | output | hang | race | fatal
	Msg   string   `json:"msg"`
	Sig   string   `json:"sig,omitempty"` // stable signature used by known_findings.json
}

func (v *Viol) Has(prop string) bool {
	if v == nil {
		return false
	}
	for _, p := range v.Props {
		if p == prop {
			return true
		}
	}
	return false
}

func viol(props []string, class, format string, a ...any) *Viol {
	return &Viol{Props: props, Class: class, Msg: fmt.Sprintf(format, a...)}
}

// Inst is a live real container together with its reference model.
type Inst interface {
	// Ops is the alphabet enabled in the current abstract state (bound respected).
	Ops() []Op
	// Step performs op on the real object and on the reference and compares
	// everything the operation returns (transition oracle) plus the cheap
	// content comparison that must run on every transition.
	Step(o Op) *Viol
	// Key is the canonical fingerprint of the real object.
	Key() string
	// CheckState evaluates the state invariants / observer comparison; the
	// engine calls it on every newly discovered state.
	CheckState() *Viol
	// Size is the abstract size (for the per-size statistics).
	Size() int
	// Describe renders op as the concrete library call(s) it stands for in the
	// current state (for replay files); called BEFORE Step.
	Describe(o Op) string
}

// phased instances split a transition into the operation proper (Do) and the
// observer comparison (Content), so that the engine can fingerprint the state BEFORE
// any observer has been called on it: an observer that modifies the container (a
// lazily shrinking Values()) would otherwise be folded into the transition.
type phased interface {
	Do(o Op) *Viol
	Content() *Viol
}

// preparer instances are told the complete path before it is replayed on them (rank-abstract key
// systems fix the concrete keys from it).
type preparer interface{ Prepare(path []Op) }

func prepare(in Inst, path []Op, last *Op) {
	if p, ok := in.(preparer); ok {
		full := path
		if last != nil {
			full = append(append([]Op{}, path...), *last)
		}
		p.Prepare(full)
	}
}

// Sys creates fresh instances.
type Sys interface {
	Name() string
	Props() []string // properties whose oracle this system carries (a panic violates them all)
	New() Inst
}

type stateRec struct {
	parent int32
	op     Op
	depth  int32
}

type Stats struct {
	States        int            `json:"states"`
	Transitions   int            `json:"transitions"`
	Changing      int            `json:"transitions_changing_state"`
	Noop          int            `json:"transitions_noop"`
	MaxDepth      int            `json:"max_depth"`
	PerSize       map[int]int    `json:"states_per_size"`
	Exhaustive    bool           `json:"exhaustive"`
	Cap           string         `json:"cap_hit,omitempty"`
	Replayed      int            `json:"real_calls_replayed"`
	PrefixChecks  int            `json:"prefix_determinism_checks"`
	DistinctObs   int            `json:"distinct_observations"`
	Nested        map[string]int `json:"nested,omitempty"`
	Samples       []any          `json:"samples,omitempty"`
	OpsHistogram  map[string]int `json:"ops_histogram,omitempty"`
	MaxAlphabet   int            `json:"max_alphabet"`
	LongestPath   string         `json:"longest_shortest_path,omitempty"`
	FirstViolPath string         `json:"-"`
}

// Found is a violation with the path that reaches it.
type Found struct {
	V      *Viol    `json:"viol"`
	Path   []Op     `json:"path"`            // state path (container history)
	Last   *Op      `json:"last,omitempty"`  // failing transition, nil for state/nested violations
	Calls  []string `json:"calls,omitempty"` // concrete calls of Path(+Last)
	Nested string   `json:"nested,omitempty"`
}

type Explorer struct {
	Sys      Sys
	Deadline time.Time
	MaxState int
	// OnState runs the nested enumerations of a property on every new state.
	// build() returns a fresh instance in that state (replayed from the constructor).
	OnState func(path []Op, build func() Inst, st *Stats) *Viol
	// Want filters violations: only those tagged with this property stop the search
	// ("" = any).
	Want     string
	OutGuard bool // treat bytes on fd 1/2 as violation (C17)
	NoState  bool // skip CheckState (when another job already does it)
	Quiet    bool // no samples
	// Beyond: keep exploring behind a transition whose oracle reported a violation of a
	// property this run does not decide (C17 only needs the guards, not the reference: a
	// corrupted structure often panics or loops a few operations later).
	Beyond bool
	// After runs once the fixpoint is reached (deferred multi-root work); a violation
	// it returns is attributed to the path it names.
	After     func(e *Explorer) *Found
	SampleN   int
	recs      []stateRec
	seen      map[[16]byte]int32
	obs       map[[16]byte]struct{}
	St        Stats
	inflight  atomic.Value
	replayErr error
}

func hash16(s string) [16]byte {
	h := sha256.Sum256([]byte(s))
	var r [16]byte
	copy(r[:], h[:16])
	return r
}

func (e *Explorer) pathOf(i int32) []Op {
	var rev []Op
	for i > 0 {
		rev = append(rev, e.recs[i].op)
		i = e.recs[i].parent
	}
	for l, r := 0, len(rev)-1; l < r; l, r = l+1, r-1 {
		rev[l], rev[r] = rev[r], rev[l]
	}
	return rev
}

// current transition, for the hang monitor and the journal
var inflightDesc atomic.Value // string
var inflightSeq atomic.Int64

func setInflight(f func() string) {
	inflightSeq.Add(1)
	if journalOn {
		journalWrite(f())
	}
	inflightFn.Store(f)
}

var inflightFn atomic.Value // func() string

// guarded step: panic -> violation
func safeStep(in Inst, o Op, props []string) (v *Viol) {
	defer func() {
		if r := recover(); r != nil {
			v = panicViol(r, props, o.String())
		}
	}()
	return in.Step(o)
}

func safeCheck(f func() *Viol, props []string, what string) (v *Viol) {
	defer func() {
		if r := recover(); r != nil {
			v = panicViol(r, props, what)
		}
	}()
	return f()
}

// panicViol turns a recovered panic into a violation — unless the panicking
// function is the checker's own code (then it is a tool error and is re-raised:
// a harness bug must never be reported as a defect of the library).
func panicViol(r any, props []string, what string) *Viol {
	st := debug.Stack()
	if s, ok := r.(string); ok && strings.HasPrefix(s, "tool error") {
		panic(r)
	}
	if !panicOriginInLibrary(st) {
		panic(fmt.Sprintf("tool error: panic raised by the checker's own code during %s: %v\n%s", what, r, st))
	}
	return &Viol{Props: append(append([]string{}, props...), "C17"), Class: "panic",
		Msg: fmt.Sprintf("panic in %s: %v\n%s", what, r, trimStack(st))}
}

// panicOriginInLibrary: the first non-runtime frame below the panic call belongs to
// the library under test (or to the standard library called by it), not to package main.
func panicOriginInLibrary(stack []byte) bool {
	lines := strings.Split(string(stack), "\n")
	// the ORIGINAL panic is the deepest "panic(" frame: handlers that re-raise it appear above
	i := len(lines)
	for k, l := range lines {
		if strings.HasPrefix(l, "panic(") {
			i = k
		}
	}
	// frames come in pairs: function line, then file line
	for i += 2; i+1 < len(lines); i += 2 {
		fn := lines[i]
		switch {
		case strings.HasPrefix(fn, "runtime."), strings.HasPrefix(fn, "runtime/"), strings.HasPrefix(fn, "panic("):
			continue
		case strings.HasPrefix(fn, "main.(*PS)."), strings.HasPrefix(fn, "main.PS."):
			// a method of an ELEMENT (typed.go PS.String on a typed nil): whoever called it is the origin
			continue
		case strings.HasPrefix(fn, "main."):
			return false
		default:
			// library frame, or std code: decide by who called it — walk on until main or gods
			if strings.Contains(fn, "emirpasic/gods") {
				return true
			}
			// std frame (encoding/json, slices, reflect, ...): continue to its caller
			continue
		}
	}
	return false
}

func trimStack(b []byte) string {
	lines := strings.Split(string(b), "\n")
	var keep []string
	for _, l := range lines {
		if strings.Contains(l, "emirpasic/gods") || strings.Contains(l, "/repo/") {
			keep = append(keep, strings.TrimSpace(l))
		}
		if len(keep) >= 8 {
			break
		}
	}
	return strings.Join(keep, "\n")
}

// replay builds a fresh instance in the state reached by path.  Any violation
// while replaying an already verified prefix is a determinism error.
func (e *Explorer) replay(path []Op) Inst { return e.replayFor(path, nil) }

// replayFor replays path on a fresh instance that has been prepared for path followed by next.
func (e *Explorer) replayFor(path []Op, next *Op) Inst {
	in := e.Sys.New()
	prepare(in, path, next)
	for i, o := range path {
		var v *Viol
		if ph, ok := in.(phased); ok && e.Beyond {
			// the operation itself must not panic; what the observers do on the state it leaves
			// (mismatch or panic) was another property's finding when the prefix was explored
			v = safeCheck(func() *Viol { return ph.Do(o) }, nil, o.String())
			if v == nil || v.Class != "panic" {
				safeCheck(ph.Content, nil, "Size/Keys/Values after "+o.String())
				v = nil
			}
		} else {
			v = safeStep(in, o, nil)
		}
		if v != nil && !(e.Beyond && v.Class != "panic") {
			panic(fmt.Sprintf("tool error: divergence while replaying verified prefix at step %d (%s) of %v: %s", i, o, path, v.Msg))
		}
	}
	e.St.Replayed += len(path)
	return in
}

func describePath(s Sys, path []Op, last *Op) (calls []string) {
	defer func() { recover() }()
	in := s.New()
	prepare(in, path, last)
	for _, o := range path {
		calls = append(calls, in.Describe(o))
		safeStep(in, o, nil)
	}
	if last != nil {
		calls = append(calls, in.Describe(*last)+"   <-- fails")
	}
	return
}

func (e *Explorer) found(v *Viol, path []Op, last *Op) *Found {
	f := &Found{V: v, Path: path, Last: last}
	f.Calls = describePath(e.Sys, path, last)
	return f
}

// AllPaths returns the shortest path of every state found (BFS order).
func (e *Explorer) AllPaths() [][]Op {
	ps := make([][]Op, len(e.recs))
	for i := range e.recs {
		ps[i] = e.pathOf(int32(i))
	}
	return ps
}

func (e *Explorer) wants(v *Viol) bool {
	if v == nil {
		return false
	}
	return e.Want == "" || v.Has(e.Want)
}

// Run explores to fixpoint (or cap/deadline) and returns the first violation.
func (e *Explorer) Run() *Found {
	e.seen = map[[16]byte]int32{}
	e.obs = map[[16]byte]struct{}{}
	e.St.PerSize = map[int]int{}
	e.St.OpsHistogram = map[string]int{}
	if e.St.Nested == nil {
		e.St.Nested = map[string]int{}
	}
	props := e.Sys.Props()
	if e.SampleN == 0 {
		e.SampleN = 3
	}

	root := e.Sys.New()
	k0 := root.Key()
	e.seen[hash16(k0)] = 0
	e.recs = append(e.recs, stateRec{parent: -1})
	e.St.States = 1
	e.St.PerSize[root.Size()]++
	if f := e.visitNew(nil, root, props); f != nil {
		return f
	}

	for i := int32(0); int(i) < len(e.recs); i++ {
		if !e.Deadline.IsZero() && time.Now().After(e.Deadline) {
			e.St.Cap = "deadline"
			return nil
		}
		if e.MaxState > 0 && len(e.recs) >= e.MaxState {
			e.St.Cap = "max_states"
			return nil
		}
		path := e.pathOf(i)
		base := e.replay(path)
		kb := base.Key()
		// determinism of the prefix: the state we rebuild is the state we stored
		if j, ok := e.seen[hash16(kb)]; !ok || j != i {
			panic(fmt.Sprintf("tool error: nondeterministic replay of %v: rebuilt state is #%d, expected #%d", path, j, i))
		}
		e.St.PrefixChecks++
		ops := base.Ops()
		if len(ops) > e.St.MaxAlphabet {
			e.St.MaxAlphabet = len(ops)
		}
		for _, o := range ops {
			o := o
			in := e.replayFor(path, &o)
			setInflight(func() string { return fmt.Sprintf("%s path=%v op=%s", e.Sys.Name(), path, o) })
			var v *Viol
			var k string
			var h [16]byte
			doPanicked := true // a panic inside the operation itself leaves an undefined state
			if ph, ok := in.(phased); ok {
				v = safeCheck(func() *Viol { return ph.Do(o) }, props, o.String())
				doPanicked = v != nil && v.Class == "panic"
				if v != nil && !e.wants(v) && v.Class != "panic" {
					// the operation's own oracle failed for another property: this property's
					// observer comparison is still evaluated on the resulting state
					if v2 := safeCheck(ph.Content, props, "Size/Keys/Values after "+o.String()); e.wants(v2) {
						v = v2
					}
				}
				if v == nil {
					k = in.Key() // fingerprint before any observer ran on the new state
					h = hash16(k)
					v = safeCheck(ph.Content, props, "Size/Keys/Values after "+o.String())
					if _, known := e.seen[h]; v == nil && !known {
						if k2 := in.Key(); k2 != k {
							v = &Viol{Props: append(append([]string{}, props...), "C15", "C18"), Class: "invariant",
								Msg: fmt.Sprintf("the observers Size/Keys/Values called after %s changed the container's state:\n before %s\n after  %s", o, clip(k, 400), clip(k2, 400))}
						}
					}
				}
			} else {
				v = safeStep(in, o, props)
				if v == nil {
					k = in.Key()
					h = hash16(k)
				}
			}
			e.St.Transitions++
			e.St.OpsHistogram[o.N]++
			if v == nil && e.OutGuard {
				v = outGuardCheck(o.String())
			}
			if e.wants(v) {
				return e.found(v, path, &o)
			}
			if v != nil {
				// a violation of a property this run does not decide: normally do not explore
				// beyond a transition whose oracle failed (the reference is unreliable there)
				e.St.Nested["transitions_with_foreign_violation"]++
				if !e.Beyond || (v.Class == "panic" && doPanicked) {
					continue
				}
				kv := safeCheck(func() *Viol { k = in.Key(); return nil }, props, "fingerprint")
				if kv != nil {
					continue
				}
				h = hash16(k)
			}
			if k == kb {
				e.St.Noop++
			} else {
				e.St.Changing++
			}
			if _, ok := e.seen[h]; ok {
				continue
			}
			idx := int32(len(e.recs))
			e.seen[h] = idx
			e.recs = append(e.recs, stateRec{parent: i, op: o, depth: e.recs[i].depth + 1})
			e.St.States++
			e.St.PerSize[in.Size()]++
			np := append(append([]Op{}, path...), o)
			if d := int(e.recs[idx].depth); d > e.St.MaxDepth {
				e.St.MaxDepth = d
				e.St.LongestPath = fmt.Sprint(np)
			}
			if f := e.visitNew(np, in, props); f != nil {
				return f
			}
		}
	}
	e.St.Exhaustive = true
	e.St.DistinctObs = len(e.obs)
	if e.After != nil {
		if f := e.After(e); f != nil {
			e.St.Exhaustive = false
			return f
		}
	}
	return nil
}

// HasKey reports whether a state with this canonical key was visited.
func (e *Explorer) HasKey(k string) bool {
	_, ok := e.seen[hash16(k)]
	return ok
}

// Rebuild returns a fresh instance in the state reached by path.
func (e *Explorer) Rebuild(path []Op) Inst { return e.replay(path) }

type observer interface{ Obs() string }

func (e *Explorer) visitNew(path []Op, in Inst, props []string) *Found {
	if ob, ok := in.(observer); ok {
		e.obs[hash16(ob.Obs())] = struct{}{}
		e.St.DistinctObs = len(e.obs)
	}
	if !e.NoState {
		setInflight(func() string { return fmt.Sprintf("%s path=%v CheckState", e.Sys.Name(), path) })
		v := checkStatePure(in, props)
		if v == nil && e.OutGuard {
			v = outGuardCheck("state observers")
		}
		if e.wants(v) {
			return e.found(v, path, nil)
		}
	}
	if e.OnState != nil {
		setInflight(func() string { return fmt.Sprintf("%s path=%v nested", e.Sys.Name(), path) })
		build := func() Inst { return e.replay(path) }
		// a library panic during the nested enumeration is a violation of the property that is
		// being enumerated (it expects every call to return), whatever the family's own tags
		np := props
		if e.Want != "" {
			np = append(append([]string{}, props...), e.Want)
		}
		v := safeCheck(func() *Viol { return e.OnState(path, build, &e.St) }, np, "nested enumeration")
		if v == nil && e.OutGuard {
			v = outGuardCheck("nested enumeration")
		}
		if e.wants(v) {
			f := e.found(v, path, nil)
			f.Nested = "nested enumeration on this state"
			return f
		}
	}
	if len(e.St.Samples) < e.SampleN && len(path) >= 3 {
		e.St.Samples = append(e.St.Samples, map[string]any{
			"system": e.Sys.Name(), "trace": describePath(e.Sys, path, nil), "reached_state": clip(in.Key(), 300)})
	}
	return nil
}

func clip(s string, n int) string {
	if len(s) > n {
		return s[:n] + "…"
	}
	return s
}

// ReplayOne re-executes one recorded trace with all oracles on (used to confirm
// a violation in a fresh process and by `vmc replay`).
func (e *Explorer) ReplayOne(path []Op, last *Op) *Found {
	props := e.Sys.Props()
	if e.St.Nested == nil {
		e.St.Nested = map[string]int{}
	}
	in := e.Sys.New()
	prepare(in, path, last)
	for i, o := range path {
		o := o
		if v := safeStep(in, o, props); e.wants(v) {
			return e.found(v, path[:i], &o)
		}
		if e.OutGuard {
			if v := outGuardCheck(o.String()); e.wants(v) {
				return e.found(v, path[:i], &o)
			}
		}
	}
	if last != nil {
		var v *Viol
		if ph, ok := in.(phased); ok {
			o := *last
			v = safeCheck(func() *Viol { return ph.Do(o) }, props, o.String())
			if v != nil && !e.wants(v) && v.Class != "panic" {
				if v2 := safeCheck(ph.Content, props, "Size/Keys/Values after "+o.String()); e.wants(v2) {
					v = v2
				}
			}
			if v == nil {
				k := in.Key()
				v = safeCheck(ph.Content, props, "Size/Keys/Values after "+o.String())
				if k2 := in.Key(); v == nil && k2 != k {
					v = &Viol{Props: append(append([]string{}, props...), "C15", "C18"), Class: "invariant",
						Msg: fmt.Sprintf("the observers Size/Keys/Values called after %s changed the container's state:\n before %s\n after  %s", o, clip(k, 400), clip(k2, 400))}
				}
			}
		} else {
			v = safeStep(in, *last, props)
		}
		if v == nil && e.OutGuard {
			v = outGuardCheck(last.String())
		}
		if e.wants(v) {
			return e.found(v, path, last)
		}
		return nil
	}
	if !e.NoState {
		v := checkStatePure(in, props)
		if v == nil && e.OutGuard {
			v = outGuardCheck("state observers")
		}
		if e.wants(v) {
			return e.found(v, path, nil)
		}
	}
	if e.OnState != nil {
		build := func() Inst { return e.replay(path) }
		// a library panic during the nested enumeration is a violation of the property that is
		// being enumerated (it expects every call to return), whatever the family's own tags
		np := props
		if e.Want != "" {
			np = append(append([]string{}, props...), e.Want)
		}
		v := safeCheck(func() *Viol { return e.OnState(path, build, &e.St) }, np, "nested enumeration")
		if v == nil && e.OutGuard {
			v = outGuardCheck("nested enumeration")
		}
		if e.wants(v) {
			f := e.found(v, path, nil)
			f.Nested = "nested enumeration on this state"
			return f
		}
	}
	return nil
}

// checkStatePure runs the complete state oracle and then requires the container to be exactly as it was:
// every observer of the oracle (look-ups, navigation, iteration, String, set operations, ..) has run, and a
// structure built lazily by a reader is a write.
func checkStatePure(in Inst, props []string) *Viol {
	var k0 string
	kv := safeCheck(func() *Viol { k0 = in.Key(); return nil }, nil, "fingerprint")
	v := safeCheck(in.CheckState, props, "state observers")
	if v == nil && kv == nil {
		var k1 string
		if safeCheck(func() *Viol { k1 = in.Key(); return nil }, nil, "fingerprint") == nil && k1 != k0 {
			v = &Viol{Props: append(append([]string{}, props...), "C15", "C18"), Class: "invariant",
				Msg: fmt.Sprintf("the read-only operations of the state oracle changed the container's state:\n before %s\n after  %s", clip(k0, 400), clip(k1, 400))}
		}
	}
	return v
}
