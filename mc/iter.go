package main

// Dynamic adapters for the 18 iterator types and the nested fixpoint search of
// an iterator's own state graph against the cursor reference (C08).

import (
	"fmt"
	"reflect"

	"github.com/emirpasic/gods/v2/containers"
)

// Pair is one element of an iteration sequence: (index or key, value).
type Pair struct{ A, B any }

// IterDyn is a type-erased iterator.
type IterDyn struct {
	Obj            any // the iterator object (pointer) for the canonical dump
	Rev            bool
	Next, Prev     func() bool
	First, Last    func() bool
	Begin, End     func()
	NextTo, PrevTo func(pred func(a, b any) bool) bool
	Cur            func() (a, b any) // Index()/Key(), Value(): only valid after a successful move
}

func idxIterFwd[T any](it containers.IteratorWithIndex[T]) *IterDyn {
	return &IterDyn{Obj: it, Next: it.Next, First: it.First, Begin: it.Begin,
		NextTo: func(p func(a, b any) bool) bool {
			return it.NextTo(func(i int, v T) bool { return p(i, v) })
		},
		Cur: func() (any, any) { return it.Index(), it.Value() }}
}

func idxIterRev[T any](it containers.ReverseIteratorWithIndex[T]) *IterDyn {
	d := idxIterFwd[T](it)
	d.Rev = true
	d.Prev, d.Last, d.End = it.Prev, it.Last, it.End
	d.PrevTo = func(p func(a, b any) bool) bool {
		return it.PrevTo(func(i int, v T) bool { return p(i, v) })
	}
	return d
}

func keyIterRev[K, V any](it containers.ReverseIteratorWithKey[K, V]) *IterDyn {
	return &IterDyn{Obj: it, Rev: true, Next: it.Next, First: it.First, Begin: it.Begin,
		Prev: it.Prev, Last: it.Last, End: it.End,
		NextTo: func(p func(a, b any) bool) bool {
			return it.NextTo(func(k K, v V) bool { return p(k, v) })
		},
		PrevTo: func(p func(a, b any) bool) bool {
			return it.PrevTo(func(k K, v V) bool { return p(k, v) })
		},
		Cur: func() (any, any) { return it.Key(), it.Value() }}
}

// ---- cursor model + nested search ---------------------------------------------

// iterOps enumerates the iterator alphabet for a sequence of n elements:
// Next Prev Begin End First Last, NextTo/PrevTo with every predicate given as a
// truth table over positions (all 2^n for n<=fullN, else {pos==j}, never, always).
func iterOps(n int, rev bool, fullN int) []Op {
	ops := []Op{op("Next"), op("Begin"), op("First")}
	if rev {
		ops = append(ops, op("Prev"), op("End"), op("Last"))
	}
	var preds []int
	if n <= fullN {
		for m := 0; m < 1<<uint(n); m++ {
			preds = append(preds, m)
		}
	} else if n <= 8 {
		preds = append(preds, 0, (1<<uint(n))-1)
		for j := 0; j < n; j++ {
			preds = append(preds, 1<<uint(j))
		}
		// two-position predicates with the first and last element
		for j := 1; j < n-1; j++ {
			preds = append(preds, 1|1<<uint(j), 1<<uint(n-1)|1<<uint(j))
		}
	} else {
		// large sequences (deep trees): cursor movement is what varies, the predicate family is
		// reduced to never / always / first / last / middle / two mixed pairs / every third
		mid := n / 2
		third := 0
		for j := 0; j < n; j += 3 {
			third |= 1 << uint(j)
		}
		preds = append(preds, 0, (1<<uint(n))-1, 1, 1<<uint(n-1), 1<<uint(mid), 1|1<<uint(mid), 1<<uint(n-1)|1<<uint(mid), third)
	}
	for _, m := range preds {
		ops = append(ops, op("NextTo", m))
		if rev {
			ops = append(ops, op("PrevTo", m))
		}
	}
	return ops
}

type iterRun struct {
	it    *IterDyn
	pos   int // reference cursor
	seq   []Pair
	props []string
}

func pairEq(a, b Pair) bool { return anyEqv(a.A, b.A) && anyEqv(a.B, b.B) }

// anyEqv: equality of observed values with NaN equal to NaN (a NaN key is a legitimate element under
// cmp.Compare; the checker's own comparisons must not trip over it)
func anyEqv(a, b any) bool {
	if x, ok := a.(float64); ok {
		if y, ok := b.(float64); ok {
			return x == y || (x != x && y != y)
		}
	}
	return reflect.DeepEqual(a, b)
}

// iterBudget is raised by the predicate when NextTo/PrevTo shows it more elements than any cursor
// over n elements could (the iterator does not terminate).
type iterBudget struct{}

// step applies one iterator op to the real iterator and the cursor model.
func (r *iterRun) step(o Op) (res *Viol) {
	n := len(r.seq)
	defer func() {
		if x := recover(); x != nil {
			if _, ok := x.(iterBudget); ok {
				res = viol(r.props, "hang", "iterator %s keeps showing elements to the predicate (more than %d calls over %d elements): it does not terminate", o, 4*(n+3)+50, n)
				return
			}
			panic(x)
		}
	}()
	var got, want bool
	hasRet := true
	var log []Pair
	var wantLog []int
	mkPred := func(mask int) func(a, b any) bool {
		return func(a, b any) bool {
			log = append(log, Pair{a, b})
			if len(log) > 4*(n+3)+50 {
				panic(iterBudget{})
			}
			// truth by position in the reference sequence
			for i, p := range r.seq {
				if anyEqv(p.A, a) {
					return mask&(1<<uint(i)) != 0
				}
			}
			return false
		}
	}
	switch o.N {
	case "Next":
		got = r.it.Next()
		if r.pos < n {
			r.pos++
		}
		want = r.pos >= 0 && r.pos < n
	case "Prev":
		got = r.it.Prev()
		if r.pos >= 0 {
			r.pos--
		}
		want = r.pos >= 0 && r.pos < n
	case "Begin":
		r.it.Begin()
		r.pos, hasRet = -1, false
	case "End":
		r.it.End()
		r.pos, hasRet = n, false
	case "First":
		got = r.it.First()
		r.pos = 0
		if n == 0 {
			r.pos = 0 // First on empty: Begin then Next saturates at n = 0
		}
		want = n > 0
	case "Last":
		got = r.it.Last()
		r.pos = n - 1
		want = n > 0
	case "NextTo":
		mask := o.A[0]
		got = r.it.NextTo(mkPred(mask))
		want = false
		for r.pos < n {
			r.pos++
			if r.pos < n {
				wantLog = append(wantLog, r.pos)
				if mask&(1<<uint(r.pos)) != 0 {
					want = true
					break
				}
			}
		}
	case "PrevTo":
		mask := o.A[0]
		got = r.it.PrevTo(mkPred(mask))
		want = false
		for r.pos >= 0 {
			r.pos--
			if r.pos >= 0 {
				wantLog = append(wantLog, r.pos)
				if mask&(1<<uint(r.pos)) != 0 {
					want = true
					break
				}
			}
		}
	default:
		panic("iter op " + o.N)
	}
	if hasRet && got != want {
		return viol(r.props, "mismatch", "iterator %s returned %v, cursor model says %v (cursor now %d of n=%d)", o, got, want, r.pos, n)
	}
	if o.N == "NextTo" || o.N == "PrevTo" {
		if len(log) != len(wantLog) {
			return viol(r.props, "mismatch", "iterator %s showed the predicate %d element(s) %v, cursor model expects positions %v", o, len(log), log, wantLog)
		}
		for i, p := range wantLog {
			if !pairEq(log[i], r.seq[p]) {
				return viol(r.props, "mismatch", "iterator %s showed the predicate %v as call #%d, expected element at position %d = %v", o, log[i], i, p, r.seq[p])
			}
		}
	}
	if hasRet && got {
		a, b := r.it.Cur()
		if !pairEq(Pair{a, b}, r.seq[r.pos]) {
			return viol(r.props, "mismatch", "after %s = true the iterator reads (%v, %v), position %d of the container's sequence is %v", o, a, b, r.pos, r.seq[r.pos])
		}
	}
	return nil
}

// iterGraphCheck explores the complete state graph of a fresh iterator over an
// unmodified container: state = canonical dump of iterator (+container through
// its pointer), successor = replay of the iterator path on a fresh iterator + 1 op.
func iterGraphCheck(newIter func() *IterDyn, contIDs map[ptrKey]int, seq []Pair, opts CanonOpts, fullN int, props []string, st *Stats) *Viol {
	type rec struct {
		parent int
		op     Op
	}
	it0 := newIter()
	if it0 == nil {
		return nil
	}
	ops := iterOps(len(seq), it0.Rev, fullN)
	// iterator state = its own fields + pointers into the (unmodified) container, fingerprinted
	// relative to the container's pointer numbering
	key := func(r *iterRun) string { return CanonRel(opts, contIDs, r.it.Obj) + fmt.Sprintf("#%d", r.pos) }
	recs := []rec{{-1, Op{}}}
	root := &iterRun{it: it0, pos: -1, seq: seq, props: props}
	seen := map[string]int{key(root): 0}
	pathOf := func(i int) []Op {
		var rev []Op
		for i > 0 {
			rev = append(rev, recs[i].op)
			i = recs[i].parent
		}
		for l, r := 0, len(rev)-1; l < r; l, r = l+1, r-1 {
			rev[l], rev[r] = rev[r], rev[l]
		}
		return rev
	}
	for i := 0; i < len(recs); i++ {
		path := pathOf(i)
		for _, o := range ops {
			inflightSeq.Add(1)
			r := &iterRun{it: newIter(), pos: -1, seq: seq, props: props}
			for _, po := range path {
				if v := r.step(po); v != nil {
					panic(fmt.Sprintf("tool error: iterator prefix %v diverged: %s", path, v.Msg))
				}
			}
			if v := r.step(o); v != nil {
				v.Msg = fmt.Sprintf("iterator call sequence %v then %s: %s", path, o, v.Msg)
				return v
			}
			st.Nested["iterator_transitions"]++
			k := key(r)
			if _, ok := seen[k]; !ok {
				seen[k] = len(recs)
				recs = append(recs, rec{i, o})
			}
		}
		// a second iterator over the same container, used in between, must not disturb this one
		// (a cursor cached in the container or at package level would)
		for _, o := range []Op{op("Next"), op("Prev")} {
			if o.N == "Prev" && !it0.Rev {
				continue
			}
			r := &iterRun{it: newIter(), pos: -1, seq: seq, props: props}
			for _, po := range path {
				if v := r.step(po); v != nil {
					panic(fmt.Sprintf("tool error: iterator prefix %v diverged: %s", path, v.Msg))
				}
			}
			other := newIter()
			for other.Next() {
				other.Cur()
			}
			if other.Rev {
				other.Prev()
				other.End()
				other.Prev()
			}
			other.Begin()
			other.Next()
			if v := r.step(o); v != nil {
				v.Msg = fmt.Sprintf("iterator call sequence %v, then a SECOND iterator over the same container is used, then %s on the first: %s", path, o, v.Msg)
				return v
			}
			st.Nested["iterator_interference_checks"]++
		}
		if len(recs) > 4*(len(seq)+3)+50 {
			return viol(props, "invariant", "iterator state graph does not close: more than %d states over a sequence of %d elements (cursor model has %d)", len(recs), len(seq), len(seq)+2)
		}
	}
	st.Nested["iterator_states"] += len(recs)
	st.Nested["iterator_graphs"]++
	return nil
}

// ---- iterators over a container that is modified meanwhile (C17 only) ---------------------
//
// C08's cursor semantics do not apply once the container has been modified, but C17 does: every
// iterator operation must still return normally, and a value read after a successful move must not
// panic.  For every container state, every iterator position, every mutating operation of the
// alphabet and every continuation of up to two iterator calls: no panic, no unbounded loop.

var iterMutConts = [][]string{{"Next"}, {"Prev"}, {"First"}, {"Last"}, {"NextTo"}, {"PrevTo"},
	{"Next", "Next"}, {"Next", "Prev"}, {"Prev", "Next"}, {"Prev", "Prev"}, {"Begin", "Next"}, {"End", "Prev"}, {"Next", "NextTo"}, {"Prev", "PrevTo"}, {"NextTo", "Prev"}, {"PrevTo", "Next"}}

func iterMutCheck(build func() Inst, st *Stats) *Viol {
	b0 := build().(Box)
	if b0.NewIter() == nil {
		return nil
	}
	n := len(b0.ExpSeq())
	rev := b0.NewIter().Rev
	ops := b0.Ops()
	type start struct {
		fromEnd bool
		steps   int
	}
	var starts []start
	for k := 0; k <= n+1; k++ {
		starts = append(starts, start{false, k})
		if rev {
			starts = append(starts, start{true, k})
		}
	}
	for _, s0 := range starts {
		for _, o := range ops {
			if o.N == "New" {
				continue // a constructor call makes another container
			}
			for _, cont := range iterMutConts {
				usesRev := false
				for _, c := range cont {
					if c == "Prev" || c == "Last" || c == "PrevTo" || c == "End" {
						usesRev = true
					}
				}
				if usesRev && !rev {
					continue
				}
				inflightSeq.Add(1)
				b := build().(Box)
				it := b.NewIter()
				if s0.fromEnd {
					it.End()
					for i := 0; i < s0.steps; i++ {
						if it.Prev() {
							it.Cur()
						}
					}
				} else {
					for i := 0; i < s0.steps; i++ {
						if it.Next() {
							it.Cur()
						}
					}
				}
				what := b.Describe(o)
				if v := safeStep(b, o, nil); v != nil && v.Class == "panic" {
					continue // the mutation itself fails: reported by the ordinary searches
				}
				calls := 0
				limit := 20*(n+8) + 200
				pred := func(a, b any) bool {
					calls++
					if calls > limit {
						panic("tool: predicate budget")
					}
					return false
				}
				v := safeCheck(func() (vv *Viol) {
					defer func() {
						if r := recover(); r != nil {
							if s, ok := r.(string); ok && s == "tool: predicate budget" {
								vv = viol(tag("C17"), "hang", "NextTo/PrevTo on an iterator of %s whose container was modified keeps finding elements (more than %d predicate calls over %d elements): it does not terminate", b.ContainerName(), limit, n)
								return
							}
							panic(r)
						}
					}()
					for _, c := range cont {
						var ok bool
						switch c {
						case "Next":
							ok = it.Next()
						case "Prev":
							ok = it.Prev()
						case "First":
							ok = it.First()
						case "Last":
							ok = it.Last()
						case "Begin":
							it.Begin()
						case "End":
							it.End()
						case "NextTo":
							ok = it.NextTo(pred)
						case "PrevTo":
							ok = it.PrevTo(pred)
						}
						if ok {
							it.Cur() // values are read only after a successful move
						}
					}
					return nil
				}, []string{"C17"}, "iterator calls after a modification")
				st.Nested["iterator_after_modification_cases"]++
				if v != nil {
					from := "Begin"
					if s0.fromEnd {
						from = "End"
					}
					v.Msg = fmt.Sprintf("%s: iterator moved %d step(s) from %s, then %s on the container, then iterator %v: %s", b.ContainerName(), s0.steps, from, what, cont, v.Msg)
					v.Sig = fmt.Sprintf("itermut|%s|%s", b.ContainerName(), v.Class)
					return v
				}
			}
		}
	}
	return nil
}

func init() {
	jobKinds["itermut"] = func(j Job, r *JobResult) {
		s := makeSys(j.s("c", ""), j)
		exploreJob(j, r, s, func(e *Explorer) {
			e.NoState = true
			e.OnState = func(path []Op, build func() Inst, st *Stats) *Viol {
				return iterMutCheck(build, st)
			}
		})
	}
}
