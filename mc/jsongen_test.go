package main

import "testing"

func TestGrammarSizes(t *testing.T) {
	q, th := quickGrammar().texts(), thoroughGrammar().texts()
	t.Logf("quick %d thorough %d", len(q), len(th))
	g := thoroughGrammar()
	g.TwoByte = true
	t.Logf("thorough+twobyte %d", len(g.texts()))
}
