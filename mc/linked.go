package main

// C09: every order-exposing observer of the linked hash containers agrees with
// the insertion-order reference (Keys/Values/iterator are already compared by the
// box itself; here: Each, String, ToJSON text order).

import (
	"bytes"
	"encoding/json"
	"fmt"
	"regexp"
	"strings"
)

type eacher interface{ EachSeq() []Pair }

func (b *kvBox[K, V]) EachSeq() []Pair {
	if b.a.each == nil {
		return nil
	}
	var s []Pair
	b.a.each(func(k K, v V) { s = append(s, Pair{k, v}) })
	return s
}
func (b *setBox[T]) EachSeq() []Pair {
	if b.a.each == nil {
		return nil
	}
	var s []Pair
	b.a.each(func(i int, v T) { s = append(s, Pair{i, v}) })
	return s
}
func (b *listBox[T]) EachSeq() []Pair {
	var s []Pair
	b.a.each(func(i int, v T) { s = append(s, Pair{i, v}) })
	return s
}

var wordRe = regexp.MustCompile(`[a-z]+`)

// jsonOrder returns the textual order of object keys / array elements at depth 1.
func jsonOrder(data []byte) ([]string, error) {
	dec := json.NewDecoder(bytes.NewReader(data))
	tok, err := dec.Token()
	if err != nil {
		return nil, err
	}
	d, ok := tok.(json.Delim)
	if !ok {
		return nil, fmt.Errorf("not a composite")
	}
	var out []string
	isObj := d == '{'
	for dec.More() {
		if isObj {
			k, err := dec.Token()
			if err != nil {
				return nil, err
			}
			out = append(out, fmt.Sprint(k))
			var skip json.RawMessage
			if err := dec.Decode(&skip); err != nil {
				return nil, err
			}
		} else {
			var raw json.RawMessage
			if err := dec.Decode(&raw); err != nil {
				return nil, err
			}
			var s any
			json.Unmarshal(raw, &s)
			out = append(out, fmt.Sprint(s))
		}
	}
	return out, nil
}

// linkedOrderCheck: b is a linked container with single-word string keys/members.
func linkedOrderCheck(b Box, st *Stats) *Viol {
	p := tag("C09")
	exp := b.ExpSeq()
	var names []string // the insertion-ordered keys (map) or members (set)
	isMap := b.JSONKind() == "object"
	for _, e := range exp {
		if isMap {
			names = append(names, fmt.Sprint(e.A))
		} else {
			names = append(names, fmt.Sprint(e.B))
		}
	}
	if e, ok := b.(eacher); ok {
		got := e.EachSeq()
		if len(got) != len(exp) {
			return viol(p, "mismatch", "Each visited %d elements, reference has %d", len(got), len(exp))
		}
		for i := range got {
			if !pairEq(got[i], exp[i]) {
				return viol(p, "mismatch", "Each visit #%d = %v, insertion-order reference %v", i, got[i], exp)
			}
		}
		st.Nested["each_orders_checked"]++
	}
	// String()
	str := fmt.Sprint(b.Obj())
	if i := strings.Index(str, "\n"); i >= 0 {
		body := strings.TrimPrefix(str[i+1:], "map[")
		words := wordRe.FindAllString(body, -1)
		if strings.Join(words, ",") != strings.Join(names, ",") {
			return viol(p, "mismatch", "String() lists %v, insertion-order reference %v (%q)", words, names, str)
		}
		st.Nested["string_orders_checked"]++
	}
	// ToJSON text order
	if j, ok := b.Obj().(interface{ ToJSON() ([]byte, error) }); ok {
		data, err := j.ToJSON()
		if err != nil {
			return viol(tag("C09", "C11"), "mismatch", "ToJSON failed: %v", err)
		}
		ord, err := jsonOrder(data)
		if err != nil {
			return viol(tag("C09", "C11"), "mismatch", "ToJSON output %s does not parse: %v", data, err)
		}
		if strings.Join(ord, ",") != strings.Join(names, ",") {
			return viol(p, "mismatch", "ToJSON text order %v (%s), insertion-order reference %v", ord, data, names)
		}
		st.Nested["json_orders_checked"]++
	}
	return nil
}

// earlierIteratorCheck: the property lists the iterator among the enumerations of the CURRENT keys.
// An iterator obtained earlier and re-positioned (Begin / End / First / Last) after the container
// was modified must therefore enumerate the current content in insertion order.  For every state,
// every earlier position of the iterator and every operation of the alphabet.
func earlierIteratorCheck(build func() Inst, st *Stats) *Viol {
	p := tag("C09")
	b0 := build().(Box)
	n := len(b0.ExpSeq())
	for _, o := range b0.Ops() {
		if o.N == "New" {
			continue // a constructor call makes another container; the earlier iterator belongs to the old one
		}
		for k := 0; k <= n+1; k++ {
			inflightSeq.Add(1)
			b := build().(Box)
			it := b.NewIter()
			for i := 0; i < k; i++ {
				it.Next()
			}
			what := b.Describe(o)
			if v := safeStep(b, o, nil); v != nil {
				return v // reported by the ordinary search as well
			}
			exp := b.ExpSeq()
			v := safeCheck(func() *Viol {
				var fwd, bwd []Pair
				it.Begin()
				for it.Next() {
					a, c := it.Cur()
					fwd = append(fwd, Pair{a, c})
					if len(fwd) > len(exp)+2 {
						break
					}
				}
				it.End()
				for it.Prev() {
					a, c := it.Cur()
					bwd = append(bwd, Pair{a, c})
					if len(bwd) > len(exp)+2 {
						break
					}
				}
				ok := len(fwd) == len(exp) && len(bwd) == len(exp)
				for i := 0; ok && i < len(exp); i++ {
					ok = pairEq(fwd[i], exp[i]) && pairEq(bwd[len(exp)-1-i], exp[i])
				}
				if !ok {
					return viol(p, "mismatch", "an iterator obtained before %s (moved %d steps), re-positioned afterwards: Begin+Next.. enumerates %v, End+Prev.. enumerates %v, the current content in insertion order is %v", what, k, fwd, bwd, exp)
				}
				if f := it.First(); f != (len(exp) > 0) {
					return viol(p, "mismatch", "an iterator obtained before %s: First() = %v on %d current elements", what, f, len(exp))
				} else if f {
					if a, c := it.Cur(); !pairEq(Pair{a, c}, exp[0]) {
						return viol(p, "mismatch", "an iterator obtained before %s: First() is at %v, the oldest current element is %v", what, Pair{a, c}, exp[0])
					}
				}
				if l := it.Last(); l != (len(exp) > 0) {
					return viol(p, "mismatch", "an iterator obtained before %s: Last() = %v on %d current elements", what, l, len(exp))
				} else if l {
					if a, c := it.Cur(); !pairEq(Pair{a, c}, exp[len(exp)-1]) {
						return viol(p, "mismatch", "an iterator obtained before %s: Last() is at %v, the newest current element is %v", what, Pair{a, c}, exp[len(exp)-1])
					}
				}
				return nil
			}, []string{"C09"}, "earlier iterator after a modification")
			st.Nested["earlier_iterator_cases"]++
			if v != nil {
				return v
			}
		}
	}
	return nil
}

func strUniverse(u int) []string {
	var r []string
	for i := 0; i < u; i++ {
		r = append(r, string(rune('a'+i)))
	}
	return r
}

// jsonStrUniverse: strings that need escaping in JSON (quote, backslash forming a valid
// escape, control character, HTML-sensitive, non-ASCII) — used as elements, keys and values
// by the JSON jobs.
func jsonStrUniverse(u int) []string {
	// every class of character that needs care appears within the first four strings: quote and a
	// backslash that forms a valid escape; newline and a control character with no short escape;
	// HTML-sensitive characters and DEL; then non-ASCII / non-BMP, the empty string, a trailing backslash
	// (U+2028 / U+2029 are valid in JSON strings but encoding/json always escapes them: after seeded change C11-16)
	all := []string{"a\u2028", "b\"q\\t", "c\n\x1fd", "<e&>\x7f\u2029", "\u00e9\U0001F600f", "", "g\\", "h\th"}
	if u > len(all) {
		u = len(all)
	}
	return all[:u]
}

func strCmp(name string) func(a, b string) int {
	switch name {
	case "rev":
		return func(a, b string) int { return strings.Compare(b, a) }
	case "coarsej": // by length: the JSON grammar's keys "1", "2", "a" all tie
		return func(a, b string) int { return len(a) - len(b) }
	case "coarse": // by first letter pair: a,b | c,d | e,f
		cls := func(s string) int {
			if s == "" {
				return -1
			}
			return int(s[0]) / 2
		}
		return func(a, b string) int { return cls(a) - cls(b) }
	}
	return strings.Compare
}

func init() {
	jobKinds["linked"] = func(j Job, r *JobResult) {
		u := j.p("u", 5)
		var s Sys
		if j.s("c", "") == "linkedhashmap" {
			s = &KVSys[string, Val]{Kind: "linkedhashmap", CmpN: "nat", N: u, KU: strUniverse(u),
				Fresh: func(i int) Val { return Val(i) }, KCmp: strCmp("nat"), VCmp: func(a, b Val) int { return int(a - b) }, PropsL: kvProps}
		} else {
			s = &SetSys[string]{Kind: "linkedhashset", CmpN: "nat", U: strUniverse(u), Absent: "zz", Poison: "POISON", Cmp: strCmp("nat"), Tuples: defaultSetTuples(u)}
		}
		exploreJob(j, r, s, func(e *Explorer) {
			e.OnState = func(path []Op, build func() Inst, st *Stats) *Viol {
				if v := linkedOrderCheck(build().(Box), st); v != nil {
					return v
				}
				return earlierIteratorCheck(build, st)
			}
		})
	}
}

// rewoundIteratorCheck: an iterator that was obtained and used BEFORE the container was modified and is
// re-positioned (Begin / End / First / Last) AFTER the modification is, from that call on, an iterator
// over a container that is not modified meanwhile: it must expose exactly what a fresh iterator exposes
// (the fresh iterator itself is judged against the reference by the box oracle and the iterator graphs).
// Differential oracle, no expected value: for every state, every earlier position of the iterator (values
// read on the way, so that whatever an iterator may cache is filled), every operation of the alphabet —
// and, for small states, every pair of operations (a Pop followed by a Push restores the size).
func rewoundIteratorCheck(build func() Inst, st *Stats, props []string, pairsUpTo int) *Viol {
	b0 := build().(Box)
	if b0.NewIter() == nil {
		return nil
	}
	n := len(b0.ExpSeq())
	collect := func(it *IterDyn, budget int) (fwd, bwd []Pair, first, last *Pair) {
		it.Begin()
		for it.Next() {
			a, c := it.Cur()
			fwd = append(fwd, Pair{a, c})
			if len(fwd) > budget {
				break
			}
		}
		if it.First() {
			a, c := it.Cur()
			first = &Pair{a, c}
		}
		if it.Rev {
			it.End()
			for it.Prev() {
				a, c := it.Cur()
				bwd = append(bwd, Pair{a, c})
				if len(bwd) > budget {
					break
				}
			}
			if it.Last() {
				a, c := it.Cur()
				last = &Pair{a, c}
			}
		}
		return
	}
	same := func(x, y []Pair) bool {
		if len(x) != len(y) {
			return false
		}
		for i := range x {
			if !pairEq(x[i], y[i]) {
				return false
			}
		}
		return true
	}
	samePtr := func(x, y *Pair) bool {
		if x == nil || y == nil {
			return x == nil && y == nil
		}
		return pairEq(*x, *y)
	}
	one := func(ops []Op, k int, fromEnd bool) *Viol {
		inflightSeq.Add(1)
		b := build().(Box)
		it := b.NewIter()
		if fromEnd && !it.Rev {
			return nil
		}
		return safeCheck(func() *Viol {
			if fromEnd {
				it.End()
				for i := 0; i < k && it.Prev(); i++ {
					it.Cur()
				}
			} else {
				for i := 0; i < k && it.Next(); i++ {
					it.Cur()
				}
			}
			var what []string
			for _, o := range ops {
				what = append(what, b.Describe(o))
				if v := safeStep(b, o, nil); v != nil {
					return nil // reported by the ordinary search; what an iterator does on a broken container is not judged here
				}
			}
			budget := len(b.ExpSeq()) + 4
			gf, gb, gfirst, glast := collect(it, budget)
			wf, wb, wfirst, wlast := collect(b.NewIter(), budget)
			st.Nested["rewound_iterator_cases"]++
			if !same(gf, wf) || !same(gb, wb) || !samePtr(gfirst, wfirst) || !samePtr(glast, wlast) {
				dir := "Next"
				if fromEnd {
					dir = "Prev from the end"
				}
				return viol(props, "mismatch", "an iterator moved %d steps (%s, values read) before %s and re-positioned afterwards enumerates forward %v, backward %v, First %v, Last %v; a fresh iterator over the same container enumerates forward %v, backward %v, First %v, Last %v",
					k, dir, strings.Join(what, "; "), gf, gb, fmtPairPtr(gfirst), fmtPairPtr(glast), wf, wb, fmtPairPtr(wfirst), fmtPairPtr(wlast))
			}
			return nil
		}, props, "re-positioned iterator after a modification")
	}
	ops := b0.Ops()
	positions := intRange(0, n+1)
	if n > 12 { // large containers: the earlier positions {0, 1, middle, n-1, n, n+1}
		positions = litePositions(n + 1)
	}
	for _, o := range ops {
		if o.N == "New" {
			continue // a constructor call makes another container
		}
		for _, k := range positions {
			for _, fromEnd := range []bool{false, true} {
				if v := one([]Op{o}, k, fromEnd); v != nil {
					return v
				}
			}
		}
		if n <= pairsUpTo {
			// second operation: from the alphabet of the state reached by the first
			b1 := build().(Box)
			if v := safeStep(b1, o, nil); v != nil {
				continue
			}
			for _, o2 := range b1.Ops() {
				if o2.N == "New" {
					continue
				}
				for k := 0; k <= n+1; k++ {
					if v := one([]Op{o, o2}, k, false); v != nil {
						return v
					}
				}
			}
		}
	}
	return nil
}

func fmtPairPtr(p *Pair) string {
	if p == nil {
		return "none"
	}
	return fmt.Sprint(*p)
}
