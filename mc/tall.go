package main

// Tall trees: one ascending and one descending fill to 2^18 keys (thorough: 2^19), no observer on the way.
//
// A structure sized by the HEIGHT of a tree (a fixed path array, a recursion that assumes a depth)
// cannot be reached by any search that observes the container after every step — 262 143 sequential
// keys give a B-tree of order 3 eighteen levels and a red-black tree some 34.  This job inserts the keys
// blind, then checks Size, a complete forward and backward iteration, Keys(), look-ups and navigation
// at both ends and in the middle, removes every second key and checks again, removes the rest and
// checks the empty tree.  Two histories per container kind; after seeded change C02-14.

import "fmt"

func tallJob(j Job, r *JobResult) {
	c := j.s("c", "btree")
	n := 1<<j.p("log2", 18) - 1
	jj := j
	jj.S = map[string]string{"c": c, "cmp": "nat"}
	jj.P = map[string]int{"u": 4, "m": j.p("m", 3)}
	sys := kvSysFromJob(jj).(*KVSys[int, Val])
	sys.NoCount = true
	r.St = Stats{Nested: map[string]int{}, PerSize: map[int]int{}, OpsHistogram: map[string]int{}, Exhaustive: true}
	p := tag("C01", "C02", "C08")
	check := func(a *kvAPI[int, Val], live func(i int) int, cnt int, what string) *Viol {
		if a.size() != cnt {
			return viol(p, "mismatch", "%s: Size() = %d, %d keys are live", what, a.size(), cnt)
		}
		it := a.iter()
		i := 0
		for it.Next() {
			k, _ := it.Cur()
			if i >= cnt || k.(int) != live(i) {
				return viol(p, "mismatch", "%s: forward iteration element #%d is %v, the live key of that rank is %d", what, i, k, live(min(i, cnt-1)))
			}
			i++
			if i&0xffff == 0 {
				inflightSeq.Add(1)
			}
		}
		if i != cnt {
			return viol(p, "mismatch", "%s: forward iteration yields %d keys, %d are live", what, i, cnt)
		}
		if it.Rev {
			it.End()
			i = cnt
			for it.Prev() {
				i--
				k, _ := it.Cur()
				if i < 0 || k.(int) != live(i) {
					return viol(p, "mismatch", "%s: backward iteration reaches %v at rank %d", what, k, i)
				}
			}
			if i != 0 {
				return viol(p, "mismatch", "%s: backward iteration stops at rank %d", what, i)
			}
		}
		keys := a.keys()
		if len(keys) != cnt {
			return viol(p, "mismatch", "%s: len(Keys()) = %d, %d keys are live", what, len(keys), cnt)
		}
		for _, i := range []int{0, 1, cnt / 2, cnt - 2, cnt - 1} {
			if i < 0 || i >= cnt {
				continue
			}
			k := live(i)
			if keys[i] != k {
				return viol(p, "mismatch", "%s: Keys()[%d] = %d, the live key of that rank is %d", what, i, keys[i], k)
			}
			if v, ok := a.get(k); !ok || int(v) != k {
				return viol(p, "mismatch", "%s: Get(%d) = (%v, %v) for a live key", what, k, v, ok)
			}
			if a.floor != nil {
				if fk, _, ok := a.floor(k); !ok || fk != k {
					return viol(p, "mismatch", "%s: Floor(%d) = (%v, %v) for a live key", what, k, fk, ok)
				}
				if ck, _, ok := a.ceiling(k); !ok || ck != k {
					return viol(p, "mismatch", "%s: Ceiling(%d) = (%v, %v) for a live key", what, k, ck, ok)
				}
			}
		}
		if _, ok := a.get(-1); ok {
			return viol(p, "mismatch", "%s: Get(-1) finds an absent key", what)
		}
		if a.shape != nil {
			if v := a.shape(); v != nil {
				v.Msg = what + ": " + v.Msg
				return v
			}
		}
		r.St.States++
		return nil
	}
	for _, dir := range []string{"ascending", "descending"} {
		dir := dir
		v := safeCheck(func() *Viol {
			a := sys.newBox().a
			for i := 0; i < n; i++ {
				k := i
				if dir == "descending" {
					k = n - 1 - i
				}
				a.put(k, Val(k))
				r.St.Transitions++
				if i&0xfff == 0 {
					inflightSeq.Add(1)
				}
			}
			what := fmt.Sprintf("%s: %d keys inserted %s", sys.Name(), n, dir)
			if v := check(a, func(i int) int { return i }, n, what); v != nil {
				return v
			}
			for k := 0; k < n; k += 2 {
				a.remove(k)
				r.St.Transitions++
				if k&0xfff == 0 {
					inflightSeq.Add(1)
				}
			}
			if v := check(a, func(i int) int { return 2*i + 1 }, n/2, what+", every second key removed"); v != nil {
				return v
			}
			for k := 1; k < n; k += 2 {
				a.remove(k)
				r.St.Transitions++
				if k&0xfff == 1 {
					inflightSeq.Add(1)
				}
			}
			return check(a, func(i int) int { return -1 }, 0, what+", all keys removed")
		}, []string{j.Prop}, "tall-tree history")
		if v == nil && j.Prop == "C17" {
			v = outGuardCheck("tall-tree history")
		}
		if v != nil && v.Has(j.Prop) {
			r.Found = &Found{V: v, Calls: []string{fmt.Sprintf("Put(k, k) for k = 0..%d %s; every second key removed; the rest removed (tall.go)", n-1, dir)}}
			r.St.Exhaustive = false
			return
		}
		r.St.Nested["tall_histories"]++
	}
	r.St.Samples = []any{map[string]any{"system": sys.Name(), "family": "ascending and descending fill without observers, then complete checks; every second key removed; all removed", "keys": n}}
}

func init() { jobKinds["tall"] = tallJob }

// tallJobs: the tree kinds at 2^18 / 2^19 sequential keys
func tallJobs(q bool, add func(kind, id string, w int, s map[string]string, p map[string]int)) {
	lg := 18
	if !q {
		lg = 19
	}
	for _, m := range []int{3, 4} {
		add("tall", fmt.Sprintf("tall.btree%d", m), 90, map[string]string{"c": "btree"}, map[string]int{"m": m, "log2": lg})
	}
	for _, c := range []string{"rbt", "avl", "treemap"} {
		add("tall", "tall."+c, 90, map[string]string{"c": c}, map[string]int{"log2": lg})
	}
}
