package main

// Treadmill: a small container held at constant size while hundreds of thousands of elements pass
// through it, observed only at chosen moments.
//
// The state searches observe the container after EVERY operation, so whatever a container remembers
// between two observations (a cached Values() slice, a cached left-most node, a remembered search
// position) is refreshed at every step, and a validity stamp kept in a narrow integer never gets the
// chance to wrap.  This job performs exactly g modifications WITHOUT any observer call between two
// complete observations, for every gap g in a stated list around the powers of two up to 2^17 (255,
// 256, 257, .., 65535, 65536, 65537, 131072): a window of w keys slides upwards (insert the next key,
// remove the oldest), each insertion and each removal counts as one modification.  Every observation
// compares all observers with the reference window; it also looks up the key that will be inserted by
// the LAST modification of the coming gap (a remembered miss that is used g-1 modifications later).
// One history per container kind — exhaustive over the observers at the stated moments only.

import (
	"fmt"
	"sort"
)

var treadmillGaps = []int{1, 2, 3, 15, 16, 17, 255, 256, 257, 511, 512, 513, 1023, 1024, 1025, 4095, 4096, 4097, 65535, 65536, 65537, 131071, 131072, 131073}

// tmAdapter: insert key k / remove key k / observe against the window (ascending list of live keys)
type tmAdapter struct {
	name    string
	ins     func(k int)
	del     func(k int) // the oldest live key
	observe func(live []int, future int) *Viol
	ordered bool            // live keys are observed in ascending order (else: insertion order = ascending here as well)
	iter    func() *IterDyn // a fresh iterator (nil: none)
}

func seqEq(got []int, want []int) bool {
	if len(got) != len(want) {
		return false
	}
	for i := range got {
		if got[i] != want[i] {
			return false
		}
	}
	return true
}

func iterInts(it *IterDyn, val bool) (fwd, bwd []int) {
	pick := func() int {
		a, b := it.Cur()
		if val {
			x, _ := b.(int)
			if v, ok := b.(Val); ok {
				x = int(v)
			}
			return x
		}
		x, _ := a.(int)
		return x
	}
	it.Begin()
	for n := 0; it.Next() && n < 1<<20; n++ {
		fwd = append(fwd, pick())
	}
	if it.Rev {
		it.End()
		for n := 0; it.Prev() && n < 1<<20; n++ {
			bwd = append(bwd, pick())
		}
		for l, r := 0, len(bwd)-1; l < r; l, r = l+1, r-1 {
			bwd[l], bwd[r] = bwd[r], bwd[l]
		}
	} else {
		bwd = fwd
	}
	return
}

func treadmillAdapter(c string, j Job) *tmAdapter {
	p := func(props ...string) []string { return props }
	// every observer is compared; a disagreement that does not concern the property being decided does not
	// end the observation (the structural oracles further down may concern it)
	keep := func(v *Viol) *Viol {
		if v.Has(j.Prop) {
			return v
		}
		return nil
	}
	switch c {
	case "rbt", "avl", "btree", "treemap", "hashmap", "linkedhashmap":
		jj := j
		jj.S = map[string]string{"c": c, "cmp": j.s("cmp", "nat")}
		jj.P = map[string]int{"u": 4, "m": j.p("m", 3)}
		sys := kvSysFromJob(jj).(*KVSys[int, Val])
		sys.NoCount = true
		a := sys.newBox().a
		rev := j.s("cmp", "nat") == "rev"
		return &tmAdapter{name: sys.Name(), iter: a.iter, ins: func(k int) { a.put(k, Val(k*10)) }, del: func(k int) { a.remove(k) },
			observe: func(live []int, future int) *Viol {
				want := append([]int{}, live...)
				if rev {
					sort.Sort(sort.Reverse(sort.IntSlice(want)))
				}
				if a.size() != len(live) {
					if x := keep(viol(p("C01", "C15"), "mismatch", "Size() = %d, %d keys are live", a.size(), len(live))); x != nil {
						return x
					}
				}
				keys := a.keys()
				if c == "hashmap" {
					sort.Ints(keys)
				}
				if !seqEq(keys, want) {
					if x := keep(viol(p("C01", "C02", "C09"), "mismatch", "Keys() = %v, live keys %v", keys, want)); x != nil {
						return x
					}
				}
				vals := a.values()
				vi := make([]int, len(vals))
				for i, v := range vals {
					vi[i] = int(v) / 10
				}
				if c == "hashmap" {
					sort.Ints(vi)
				}
				if !seqEq(vi, want) {
					if x := keep(viol(p("C01", "C02", "C09"), "mismatch", "Values() = %v (as keys: %v), live keys %v", vals, vi, want)); x != nil {
						return x
					}
				}
				for _, k := range live {
					if v, ok := a.get(k); !ok || int(v) != k*10 {
						if x := keep(viol(p("C01"), "mismatch", "Get(%d) = (%v, %v), the key is live with value %d", k, v, ok, k*10)); x != nil {
							return x
						}
					}
				}
				if a.iter != nil {
					fwd, bwd := iterInts(a.iter(), false)
					if !seqEq(fwd, want) || !seqEq(bwd, want) {
						if x := keep(viol(p("C02", "C08", "C09"), "mismatch", "iteration forward %v, backward (reversed) %v, live keys %v", fwd, bwd, want)); x != nil {
							return x
						}
					}
				}
				if a.min != nil && len(live) > 0 {
					k1, _, ok1 := a.min()
					k2, _, ok2 := a.max()
					if !ok1 || !ok2 || k1 != want[0] || k2 != want[len(want)-1] {
						if x := keep(viol(p("C02"), "mismatch", "Min/Max = %v/%v, live keys %v", k1, k2, want)); x != nil {
							return x
						}
					}
				}
				if a.shape != nil {
					if v := a.shape(); v != nil && keep(v) != nil {
						return v
					}
				}
				if a.walk != nil {
					if w := a.walk(); len(w) != len(live) {
						if x := keep(viol(p("C01", "C07"), "invariant", "walking the exported structure finds %d bindings, %d keys are live", len(w), len(live))); x != nil {
							return x
						}
					}
				}
				for _, k := range []int{live[0] - 1, future} { // look-ups that miss
					if v, ok := a.get(k); ok {
						if x := keep(viol(p("C01"), "mismatch", "Get(%d) = (%v, true) for an absent key", k, v)); x != nil {
							return x
						}
					}
				}
				return nil
			}}
	case "treebidimap", "hashbidimap":
		jj := j
		jj.S = map[string]string{"c": c}
		jj.P = map[string]int{"u": 4}
		sys := kvSysFromJob(jj).(*KVSys[int, int])
		sys.NoCount = true
		a := sys.newBox().a
		ins := func(k int) { a.put(k, -k) }
		if j.p("revalue", 0) == 1 {
			// every key is given two other values first: "same key, new value" Puts, each of which deletes an
			// inverse entry (a map that re-organises itself after k deletions meets the k-th inside such a Put)
			ins = func(k int) { a.put(k, -k-5000000); a.put(k, -k-7000000); a.put(k, -k) }
		}
		return &tmAdapter{name: sys.Name(), iter: a.iter, ins: ins, del: func(k int) { a.remove(k) },
			observe: func(live []int, future int) *Viol {
				if a.size() != len(live) {
					if x := keep(viol(p("C10", "C01", "C15"), "mismatch", "Size() = %d, %d pairs are live", a.size(), len(live))); x != nil {
						return x
					}
				}
				keys, vals := a.keys(), a.values()
				sort.Ints(keys)
				neg := make([]int, len(vals))
				for i, v := range vals {
					neg[i] = -v
				}
				sort.Ints(neg)
				if !seqEq(keys, live) || !seqEq(neg, live) {
					if x := keep(viol(p("C10", "C01"), "mismatch", "Keys() = %v, Values() = %v, live pairs are (k, -k) for k in %v", keys, vals, live)); x != nil {
						return x
					}
				}
				for _, k := range live {
					v, ok := a.get(k)
					k2, ok2 := a.getKey(-k)
					if !ok || v != -k || !ok2 || k2 != k {
						if x := keep(viol(p("C10"), "mismatch", "Get(%d) = (%v, %v), GetKey(%d) = (%v, %v) for the live pair (%d, %d)", k, v, ok, -k, k2, ok2, k, -k)); x != nil {
							return x
						}
					}
				}
				for _, k := range []int{live[0] - 1, future} {
					if _, ok := a.get(k); ok {
						if x := keep(viol(p("C10", "C01"), "mismatch", "Get(%d) finds an absent key", k)); x != nil {
							return x
						}
					}
					if _, ok := a.getKey(-k); ok {
						if x := keep(viol(p("C10"), "mismatch", "GetKey(%d) finds a displaced / absent value", -k)); x != nil {
							return x
						}
					}
				}
				return nil
			}}
	case "hashset", "linkedhashset", "treeset":
		sys := intSetSys(c, "nat", 4)
		a := sys.newAPI()
		return &tmAdapter{name: sys.Name(), iter: a.iter, ins: func(k int) { a.add(k) }, del: func(k int) { a.remove(k) },
			observe: func(live []int, future int) *Viol {
				if a.size() != len(live) {
					if x := keep(viol(p("C04", "C15"), "mismatch", "Size() = %d, %d members", a.size(), len(live))); x != nil {
						return x
					}
				}
				vals := a.values()
				if c == "hashset" {
					sort.Ints(vals)
				}
				if !seqEq(vals, live) {
					if x := keep(viol(p("C04", "C09", "C02"), "mismatch", "Values() = %v, members %v", vals, live)); x != nil {
						return x
					}
				}
				if !a.contains(live...) || a.contains(future) || a.contains(live[0]-1) {
					if x := keep(viol(p("C04"), "mismatch", "Contains disagrees with the members %v", live)); x != nil {
						return x
					}
				}
				if a.iter != nil {
					fwd, bwd := iterInts(a.iter(), true)
					if !seqEq(fwd, live) || !seqEq(bwd, live) {
						if x := keep(viol(p("C04", "C08", "C09"), "mismatch", "iteration forward %v, backward (reversed) %v, members %v", fwd, bwd, live)); x != nil {
							return x
						}
					}
				}
				e := sys.newAPI()
				for what, got := range map[string][]int{"Union(empty)": a.union(e).values(), "Difference(empty)": a.diff(e).values(), "Intersection(itself)": a.inter(a).values()} {
					sort.Ints(got)
					if !seqEq(got, live) {
						if x := keep(viol(p("C13", "C04"), "mismatch", "%s = %v, members %v", what, got, live)); x != nil {
							return x
						}
					}
				}
				return nil
			}}
	case "binaryheap", "priorityqueue":
		sys := scalarHeapSys[int](c, "min", 8, intRange(0, 3), -99, 0)
		b := sys.newBox()
		a := b.a
		return &tmAdapter{name: sys.Name(), iter: a.iter, ins: func(k int) { a.push(k) }, del: func(k int) { a.pop() },
			observe: func(live []int, future int) *Viol {
				if a.size() != len(live) {
					if x := keep(viol(p("C06", "C15"), "mismatch", "Size() = %d, %d elements", a.size(), len(live))); x != nil {
						return x
					}
				}
				if v, ok := a.peek(); !ok || v != live[0] {
					if x := keep(viol(p("C06"), "mismatch", "Peek() = (%v, %v), the least element is %d", v, ok, live[0])); x != nil {
						return x
					}
				}
				vals := a.values()
				first := -1
				if len(vals) > 0 {
					first = vals[0]
				}
				sort.Ints(vals)
				if !seqEq(vals, live) || first != live[0] {
					if x := keep(viol(p("C06"), "mismatch", "Values() = %v (first %d) is not a permutation of the contents %v headed by the least", vals, first, live)); x != nil {
						return x
					}
				}
				fwd, bwd := iterInts(a.iter(), true)
				sort.Ints(fwd)
				sort.Ints(bwd)
				if !seqEq(fwd, live) || !seqEq(bwd, live) {
					if x := keep(viol(p("C06", "C08"), "mismatch", "iteration yields %v / %v, contents %v", fwd, bwd, live)); x != nil {
						return x
					}
				}
				return nil
			}}
	case "arraylist", "singlylinkedlist", "doublylinkedlist":
		sys := intListSys(c, 8, 3)
		a := sys.newAPI()
		del := func(k int) { a.remove(0) }
		if j.p("lifo", 0) == 1 { // the newest element leaves first (removal at the end of the list)
			del = func(k int) { a.remove(a.size() - 1) }
		}
		return &tmAdapter{name: sys.Name(), iter: a.iter, ins: func(k int) { a.add(k) }, del: del,
			observe: func(live []int, future int) *Viol {
				vals := a.values()
				if a.size() != len(live) || !seqEq(vals, live) {
					if x := keep(viol(p("C03", "C15"), "mismatch", "Size() = %d, Values() = %v, abstract sequence %v", a.size(), vals, live)); x != nil {
						return x
					}
				}
				for i, k := range live {
					if v, ok := a.get(i); !ok || v != k || a.indexOf(k) != i {
						if x := keep(viol(p("C03"), "mismatch", "Get(%d) = (%v, %v), IndexOf(%d) = %d, abstract sequence %v", i, v, ok, k, a.indexOf(k), live)); x != nil {
							return x
						}
					}
				}
				if a.indexOf(future) != -1 || a.contains(future) || !a.contains(live...) {
					if x := keep(viol(p("C03"), "mismatch", "IndexOf / Contains disagree with the abstract sequence %v", live)); x != nil {
						return x
					}
				}
				fwd, bwd := iterInts(a.iter(), true)
				if !seqEq(fwd, live) || !seqEq(bwd, live) {
					if x := keep(viol(p("C03", "C08"), "mismatch", "iteration forward %v, backward (reversed) %v, abstract sequence %v", fwd, bwd, live)); x != nil {
						return x
					}
				}
				return nil
			}}
	case "arrayqueue", "linkedlistqueue", "circularbuffer":
		sys := &SeqSys[int]{Kind: c, Cap: 16, N: 8, Poison: -99, U: intU(3)}
		a := sys.newBox().a
		return &tmAdapter{name: sys.Name(), iter: a.iter, ins: func(k int) { a.push(k) }, del: func(k int) { a.pop() },
			observe: func(live []int, future int) *Viol {
				vals := a.values()
				if a.size() != len(live) || !seqEq(vals, live) {
					if x := keep(viol(p("C05", "C15"), "mismatch", "Size() = %d, Values() = %v, the queue holds %v", a.size(), vals, live)); x != nil {
						return x
					}
				}
				if v, ok := a.peek(); !ok || v != live[0] {
					if x := keep(viol(p("C05"), "mismatch", "Peek() = (%v, %v), the oldest element is %d", v, ok, live[0])); x != nil {
						return x
					}
				}
				fwd, bwd := iterInts(a.iter(), true)
				if !seqEq(fwd, live) || !seqEq(bwd, live) {
					if x := keep(viol(p("C05", "C08"), "mismatch", "iteration forward %v, backward (reversed) %v, the queue holds %v", fwd, bwd, live)); x != nil {
						return x
					}
				}
				return nil
			}}
	}
	return nil
}

func treadmillJob(j Job, r *JobResult) {
	c, w := j.s("c", ""), j.p("w", 5)
	r.St = Stats{Nested: map[string]int{}, PerSize: map[int]int{}, OpsHistogram: map[string]int{}, Exhaustive: true}
	ad := treadmillAdapter(c, j)
	if ad == nil {
		panic("tool error: no treadmill adapter for " + c)
	}
	next := 0 // the next key to insert; live keys are next-size .. next-1
	var live []int
	burst := false  // the last three modifications of a long gap are insertions (the container ends the gap larger than it began)
	mod := func() { // one modification: insert while below w, else alternate remove / insert
		if len(live) < w || burst {
			ad.ins(next)
			live = append(live, next)
			next++
			r.St.OpsHistogram["insert"]++
		} else if j.p("lifo", 0) == 1 {
			ad.del(live[len(live)-1])
			live = live[:len(live)-1]
			r.St.OpsHistogram["remove"]++
		} else {
			ad.del(live[0])
			live = live[1:]
			r.St.OpsHistogram["remove"]++
		}
		r.St.Transitions++
		if r.St.Transitions%1024 == 0 {
			inflightSeq.Add(1)
		}
	}
	// after the warm-up the window alternates between w and w-1 elements; the key inserted by the last
	// modification of a gap of g modifications starting with len(live) == w-1 or w:
	futureKey := func(g int) int {
		n, size := next, len(live)
		last := -1
		for i := 0; i < g; i++ {
			if size < w || (g >= 8 && i >= g-3) {
				last = n
				n++
				size++
			} else {
				size--
				last = -1
			}
		}
		if last < 0 {
			return n // the last modification is a removal: the key inserted right after the gap
		}
		return last
	}
	gaps := treadmillGaps
	if j.Tier != "thorough" {
		gaps = nil
		for _, g := range treadmillGaps {
			if g <= 65537 {
				gaps = append(gaps, g)
			}
		}
	}
	// an iterator obtained at an observation, left resting on the last (then on the first) element while the
	// gap passes, and moved afterwards: nothing is required of what it yields (the container was modified),
	// only that every call returns (C17)
	var held *IterDyn
	heldAtLast := true
	useHeld := func(g int) bool {
		if held == nil {
			return false
		}
		v := safeCheck(func() *Viol {
			budget := 64
			pred := func(a, b any) bool { budget--; return budget < 0 }
			for _, f := range []func() bool{held.Next, held.Next, held.Prev, held.Prev, held.First, held.Next, held.Last} {
				if f == nil {
					continue
				}
				if f() {
					held.Cur()
				}
			}
			if held.NextTo != nil {
				held.Begin()
				if held.NextTo(pred) {
					held.Cur()
				}
			}
			return nil
		}, []string{"C17", "C08"}, "an iterator kept across the unobserved modifications")
		if v != nil && v.Has(j.Prop) {
			v.Msg = fmt.Sprintf("%s: an iterator resting on an element while %d modifications pass, moved afterwards: %s", ad.name, g, v.Msg)
			r.Found = &Found{V: v, Calls: []string{"sliding window history with a kept iterator (treadmill.go)"}}
			r.St.Exhaustive = false
			return true
		}
		return false
	}
	observe := func(g int, nextGap int) bool {
		inflightSeq.Add(1)
		if useHeld(g) {
			return true
		}
		fut := futureKey(nextGap)
		v := safeCheck(func() *Viol { return ad.observe(append([]int{}, live...), fut) }, []string{j.Prop}, "observers")
		if v == nil && j.Prop == "C17" {
			v = outGuardCheck("treadmill")
		}
		r.St.States++
		r.St.Nested["observations"]++
		if v == nil && ad.iter != nil {
			held = ad.iter()
			heldAtLast = !heldAtLast
			if heldAtLast && held.Last != nil {
				held.Last()
			} else {
				held.First()
			}
		}
		if v != nil && v.Has(j.Prop) {
			v.Msg = fmt.Sprintf("%s: a window of %d keys sliding upwards, %d modifications in all, the last %d of them without any observer call in between: %s", ad.name, w, r.St.Transitions, g, v.Msg)
			r.Found = &Found{V: v, Calls: []string{fmt.Sprintf("insert 0..%d, then alternately remove the oldest / insert the next key; observers called after gaps of %v modifications", w-1, gaps)}}
			r.St.Exhaustive = false
			return true
		}
		return false
	}
	fail := false
	func() {
		defer func() {
			if rec := recover(); rec != nil {
				v := panicViol(rec, []string{j.Prop}, "treadmill modification")
				if v.Has(j.Prop) {
					v.Msg = fmt.Sprintf("%s after %d modifications: %s", ad.name, r.St.Transitions, v.Msg)
					r.Found = &Found{V: v, Calls: []string{"sliding window history (treadmill.go)"}}
					r.St.Exhaustive = false
				}
				fail = true
			}
		}()
		for len(live) < w {
			mod()
		}
		if observe(w, gaps[0]) {
			fail = true
			return
		}
		for rep := 0; rep < 2 && !fail; rep++ { // twice: after the first pass every stamp has been set at least once
			if rep == 1 {
				// one extra modification: the second pass starts with the other parity (an odd gap now ENDS with
				// an insertion - the one whose key the preceding observation looked up and missed)
				mod()
				if observe(1, gaps[0]) {
					fail = true
					return
				}
			}
			for i, g := range gaps {
				for k := 0; k < g; k++ {
					burst = g >= 8 && k >= g-3
					mod()
				}
				burst = false
				ng := gaps[(i+1)%len(gaps)]
				if observe(g, ng) {
					fail = true
					return
				}
			}
		}
	}()
	r.St.Samples = []any{map[string]any{"system": ad.name, "family": "one history: a window of w keys sliding upwards; complete observation after gaps of exactly g unobserved modifications", "w": w, "gaps": gaps}}
}

func init() { jobKinds["treadmill"] = treadmillJob }
