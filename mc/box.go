package main

import (
	"encoding/json"
	"fmt"
	"reflect"
	"sort"
	"strings"
)

// Reader is one read-only call with fixed arguments on the real object.
type Reader struct {
	Name string
	Call func() string // rendering of the result
}

// Box is an Inst with the uniform capabilities the nested enumerations need.
type Box interface {
	Inst
	Obj() any          // the real container (pointer)
	Opts() CanonOpts   // canonicalisation options of this container
	NewIter() *IterDyn // fresh iterator over the real container, nil if it has none
	ExpSeq() []Pair    // iteration sequence according to the reference
	Readers() []Reader
	Fresh() Box // fresh empty container of the same configuration (own reference)
	// Observe renders the complete observable state through the public API.
	Observe() string
	// JSONKind is "array" or "object".
	JSONKind() string
	// LoadRef replaces the reference content by what the JSON text denotes under the
	// container's discipline.  ok=false: the text denotes nothing for this container.
	LoadRef(data []byte) (ok bool)
	// Unordered reports whether Values()/ToJSON order is unspecified (hash containers).
	Unordered() bool
	// Mutators lists every mutating operation enabled now, ignoring the size bound
	// by at most one element (used by snapshot / independence checks).
	Slices() []SliceObs
	ContainerName() string
	// AdoptRef copies the reference model of another box of the same system.
	AdoptRef(from Box)
}

// SliceObs is a slice-returning observer.
type SliceObs struct {
	Name string
	Get  func() any // returns the slice
}

func fmtVals[T any](vs []T) string {
	s := make([]string, len(vs))
	for i, v := range vs {
		s[i] = fmt.Sprint(v)
	}
	return "[" + strings.Join(s, " ") + "]"
}

func sortedStrings[T any](vs []T) []string {
	s := make([]string, len(vs))
	for i, v := range vs {
		s[i] = fmt.Sprint(v)
	}
	sort.Strings(s)
	return s
}

func eqSlice[T comparable](a, b []T) bool {
	if len(a) != len(b) {
		return false
	}
	for i := range a {
		if !eqv(a[i], b[i]) { // observed values: NaN equals NaN
			return false
		}
	}
	return true
}

func sameMultiset[T any](a, b []T) bool {
	if len(a) != len(b) {
		return false
	}
	x, y := sortedStrings(a), sortedStrings(b)
	for i := range x {
		if x[i] != y[i] {
			return false
		}
	}
	return true
}

// pureCall runs f and reports whether the canonical state of obj changed.
func pureCall(opts CanonOpts, obj any, name string, props []string, f func()) *Viol {
	before := Canon(opts, obj)
	f()
	after := Canon(opts, obj)
	if before != after {
		return viol(append(append([]string{}, props...), "C15", "C18"), "invariant",
			"read-only call %s changed the container's state:\n before %s\n after  %s", name, clip(before, 400), clip(after, 400))
	}
	return nil
}

// poisonSlice overwrites every slot of s[:cap(s)] with zero-or-poison values and
// appends within spare capacity.
func poisonSlice(s any, poison any) {
	v := reflect.ValueOf(s)
	if v.Kind() != reflect.Slice || v.IsNil() {
		return
	}
	full := v.Slice(0, v.Cap())
	pv := reflect.ValueOf(poison)
	for i := 0; i < full.Len(); i++ {
		full.Index(i).Set(pv)
	}
}

var (
	pC15 = []string{"C15"}
)

func tag(ps ...string) []string { return ps }

// argSlice builds a caller-owned argument slice with spare capacity; after the
// call the caller scribbles over it (C16: argument slices are copied).
func argSlice[T any](vals []T) []T {
	s := make([]T, len(vals), len(vals)+3)
	copy(s, vals)
	lastArgSlice, lastArgOrig = s, append([]T{}, vals...)
	return s
}

// the most recent caller-owned argument slice and what it held when it was handed out
var lastArgSlice, lastArgOrig any

// scribbleCheck: after a call that received the caller-owned slice arg, the caller
// overwrites it up to its capacity; the container must not notice (C16).
func scribbleCheck[T comparable](arg []T, poison T, values func() []T, cname, opname string) *Viol {
	// the slice is the caller's: the call works on its own copy and leaves the caller's elements alone
	if ls, ok := lastArgSlice.([]T); ok && len(ls) == len(arg) && len(arg) > 0 && &ls[0] == &arg[0] {
		orig := lastArgOrig.([]T)
		for i := range arg {
			if !eqv(arg[i], orig[i]) {
				return viol(tag("C16"), "invariant", "%s.%s changed the caller's argument slice: passed %v, afterwards it holds %v", cname, opname, orig, arg)
			}
		}
	}
	pre := values()
	scribble(arg, poison)
	post := values()
	if !sameMultiset(pre, post) {
		return viol(tag("C16"), "invariant", "%s.%s keeps the caller's argument slice: writing to that slice after the call changed the container from %v to %v", cname, opname, pre, post)
	}
	return nil
}

func scribble[T any](s []T, poison T) {
	s = s[:cap(s)]
	for i := range s {
		s[i] = poison
	}
}

// pureAll runs every reader once between two fingerprints; if the fingerprint
// changed, the readers are re-run one by one to name the culprit.
func pureAll(opts CanonOpts, obj any, rs []Reader, props []string) *Viol {
	before := Canon(opts, obj)
	for _, r := range rs {
		r.Call()
	}
	if Canon(opts, obj) == before {
		return nil
	}
	for _, r := range rs {
		r := r
		if v := pureCall(opts, obj, r.Name, props, func() { r.Call() }); v != nil {
			return v
		}
	}
	return viol(append(append([]string{}, props...), "C15", "C18"), "invariant", "the read-only calls together changed the container's state (no single call reproduces it): before %s", clip(before, 400))
}

func (b *seqBox[T]) AdoptRef(f Box)  { b.ref = append([]T{}, f.(*seqBox[T]).ref...) }
func (b *listBox[T]) AdoptRef(f Box) { b.ref = append([]T{}, f.(*listBox[T]).ref...) }
func (b *heapBox[T]) AdoptRef(f Box) { b.ref = append([]T{}, f.(*heapBox[T]).ref...) }
func (b *setBox[T]) AdoptRef(f Box) {
	o := f.(*setBox[T])
	b.ref = append([]T{}, o.ref...)
	b.reps = nil
	for _, r := range o.reps {
		b.reps = append(b.reps, append([]T{}, r...))
	}
}
func (b *kvBox[K, V]) AdoptRef(f Box) {
	o := f.(*kvBox[K, V])
	b.ref = nil
	for _, e := range o.ref {
		b.ref = append(b.ref, kvEnt[K, V]{k: e.k, v: e.v, reps: append([]K{}, e.reps...)})
	}
	b.nextV, b.nextR = o.nextV, o.nextR
}

// kvLoadRef: what a JSON object denotes for a key-value container.  Relational
// where the library iterates a Go map (bidi maps: the fold of Put over the decoded
// pairs in SOME order) or where the text repeats a key (linked map: either
// occurrence fixes the position): the candidate that matches the real container
// is adopted, otherwise the first (and the comparison that follows reports it).
func kvLoadRef[K comparable, V comparable](b *kvBox[K, V], data []byte) bool {
	var m map[K]V
	if err := json.Unmarshal(data, &m); err != nil {
		return false
	}
	// textual key order, mapped to K
	type occ struct {
		k     K
		first int
		last  int
	}
	var occs []occ
	if names, err := jsonOrder(data); err == nil {
		for pos, nm := range names {
			qn, _ := json.Marshal(nm)
			var one map[K]json.RawMessage
			if json.Unmarshal([]byte("{"+string(qn)+":null}"), &one) != nil {
				continue
			}
			for k := range one {
				found := false
				for i := range occs {
					if occs[i].k == k {
						occs[i].last = pos
						found = true
					}
				}
				if !found {
					occs = append(occs, occ{k, pos, pos})
				}
			}
		}
	}
	fold := func(keys []K) []kvEnt[K, V] {
		saved := b.ref
		b.ref = nil
		for _, k := range keys {
			b.refPut(k, m[k])
		}
		r := b.ref
		b.ref = saved
		return r
	}
	var cands [][]kvEnt[K, V]
	byFirst := append([]occ{}, occs...)
	sort.SliceStable(byFirst, func(i, j int) bool { return byFirst[i].first < byFirst[j].first })
	byLast := append([]occ{}, occs...)
	sort.SliceStable(byLast, func(i, j int) bool { return byLast[i].last < byLast[j].last })
	keysOf := func(o []occ) []K {
		ks := make([]K, 0, len(o))
		for _, x := range o {
			if _, ok := m[x.k]; ok {
				ks = append(ks, x.k)
			}
		}
		return ks
	}
	kl, kf := keysOf(byLast), keysOf(byFirst)
	if len(kl) != len(m) {
		// could not recover the textual order (should not happen): fall back to map order
		kl = kl[:0]
		for k := range m {
			kl = append(kl, k)
		}
		kf = kl
	}
	if (b.sys.bidi() || strings.HasPrefix(b.sys.CmpN, "coarse") || strings.HasPrefix(b.sys.VCmpN, "coarse")) && len(kl) <= 5 {
		permute(kl, func(p []K) { cands = append(cands, fold(p)) })
	} else {
		cands = append(cands, fold(kl), fold(kf))
	}
	for _, c := range cands {
		b.ref = c
		if b.content() == nil {
			return true
		}
	}
	b.ref = cands[0]
	return true
}

func permute[T any](xs []T, f func([]T)) {
	n := len(xs)
	p := append([]T{}, xs...)
	var rec func(i int)
	rec = func(i int) {
		if i == n {
			f(append([]T{}, p...))
			return
		}
		for j := i; j < n; j++ {
			p[i], p[j] = p[j], p[i]
			rec(i + 1)
			p[i], p[j] = p[j], p[i]
		}
	}
	rec(0)
}
