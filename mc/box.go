package main

import (
	"fmt"
	"reflect"
	"sort"
	"strings"
)

// Reader is one read-only call with fixed arguments on the real object.
type Reader struct {
	Name string
	Call func() string // rendering of the result
}

// Box is an Inst with the uniform capabilities the nested enumerations need.
type Box interface {
	Inst
	Obj() any         // the real container (pointer)
	Opts() CanonOpts  // canonicalisation options of this container
	NewIter() *IterDyn // fresh iterator over the real container, nil if it has none
	ExpSeq() []Pair   // iteration sequence according to the reference
	Readers() []Reader
	Fresh() Box // fresh empty container of the same configuration (own reference)
	// Observe renders the complete observable state through the public API.
	Observe() string
	// JSONKind is "array" or "object".
	JSONKind() string
	// LoadRef replaces the reference content by what the JSON text denotes under the
	// container's discipline.  ok=false: the text denotes nothing for this container.
	LoadRef(data []byte) (ok bool)
	// Unordered reports whether Values()/ToJSON order is unspecified (hash containers).
	Unordered() bool
	// Mutators lists every mutating operation enabled now, ignoring the size bound
	// by at most one element (used by snapshot / independence checks).
	Slices() []SliceObs
	ContainerName() string
}

// SliceObs is a slice-returning observer.
type SliceObs struct {
	Name string
	Get  func() any // returns the slice
}

func fmtVals[T any](vs []T) string {
	s := make([]string, len(vs))
	for i, v := range vs {
		s[i] = fmt.Sprint(v)
	}
	return "[" + strings.Join(s, " ") + "]"
}

func sortedStrings[T any](vs []T) []string {
	s := make([]string, len(vs))
	for i, v := range vs {
		s[i] = fmt.Sprint(v)
	}
	sort.Strings(s)
	return s
}

func eqSlice[T comparable](a, b []T) bool {
	if len(a) != len(b) {
		return false
	}
	for i := range a {
		if a[i] != b[i] {
			return false
		}
	}
	return true
}

func sameMultiset[T any](a, b []T) bool {
	if len(a) != len(b) {
		return false
	}
	x, y := sortedStrings(a), sortedStrings(b)
	for i := range x {
		if x[i] != y[i] {
			return false
		}
	}
	return true
}

// pureCall runs f and reports whether the canonical state of obj changed.
func pureCall(opts CanonOpts, obj any, name string, props []string, f func()) *Viol {
	before := Canon(opts, obj)
	f()
	after := Canon(opts, obj)
	if before != after {
		return viol(append(append([]string{}, props...), "C15", "C18"), "invariant",
			"read-only call %s changed the container's state:\n before %s\n after  %s", name, clip(before, 400), clip(after, 400))
	}
	return nil
}

// poisonSlice overwrites every slot of s[:cap(s)] with zero-or-poison values and
// appends within spare capacity.
func poisonSlice(s any, poison any) {
	v := reflect.ValueOf(s)
	if v.Kind() != reflect.Slice || v.IsNil() {
		return
	}
	full := v.Slice(0, v.Cap())
	pv := reflect.ValueOf(poison)
	for i := 0; i < full.Len(); i++ {
		full.Index(i).Set(pv)
	}
}

var (
	pC15 = []string{"C15"}
)

func tag(ps ...string) []string { return ps }

// argSlice builds a caller-owned argument slice with spare capacity; after the
// call the caller scribbles over it (C16: argument slices are copied).
func argSlice[T any](vals []T) []T {
	s := make([]T, len(vals), len(vals)+3)
	copy(s, vals)
	return s
}

func scribble[T any](s []T, poison T) {
	s = s[:cap(s)]
	for i := range s {
		s[i] = poison
	}
}

// pureAll runs every reader once between two fingerprints; if the fingerprint
// changed, the readers are re-run one by one to name the culprit.
func pureAll(opts CanonOpts, obj any, rs []Reader, props []string) *Viol {
	before := Canon(opts, obj)
	for _, r := range rs {
		r.Call()
	}
	if Canon(opts, obj) == before {
		return nil
	}
	for _, r := range rs {
		r := r
		if v := pureCall(opts, obj, r.Name, props, func() { r.Call() }); v != nil {
			return v
		}
	}
	return viol(append(append([]string{}, props...), "C15", "C18"), "invariant", "the read-only calls together changed the container's state (no single call reproduces it): before %s", clip(before, 400))
}

func kvLoadRef[K comparable, V comparable](b *kvBox[K, V], data []byte) bool { return false }
