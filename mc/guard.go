package main

// Guards around real calls (DESIGN.md §2.5): stdout/stderr capture by fd
// redirection, a liveness horizon for single calls, a heap ceiling, and the
// journal used to attribute fatal (unrecoverable) runtime errors.

import (
	"fmt"
	"os"
	"runtime"
	"syscall"
	"time"
)

var (
	outFile   *os.File // scratch file that fds 1 and 2 point to
	outSeen   int64
	reportOut *os.File // where the worker writes its own messages (saved dup of stderr)
)

// redirectStd points fds 1 and 2 at a scratch file; the worker's own
// diagnostics go through reportOut.
func redirectStd(path string) error {
	f, err := os.OpenFile(path, os.O_CREATE|os.O_TRUNC|os.O_RDWR|os.O_APPEND, 0o644)
	if err != nil {
		return err
	}
	saved, err := syscall.Dup(2)
	if err != nil {
		return err
	}
	reportOut = os.NewFile(uintptr(saved), "saved-stderr")
	if err := syscall.Dup2(int(f.Fd()), 1); err != nil {
		return err
	}
	if err := syscall.Dup2(int(f.Fd()), 2); err != nil {
		return err
	}
	outFile = f
	return nil
}

func diag(format string, a ...any) {
	w := reportOut
	if w == nil {
		w = os.Stderr
	}
	fmt.Fprintf(w, format+"\n", a...)
}

// outGuardCheck reports bytes that appeared on fd 1/2 since the last check.
func outGuardCheck(what string) *Viol {
	if outFile == nil {
		return nil
	}
	var st syscall.Stat_t
	if err := syscall.Fstat(int(outFile.Fd()), &st); err != nil {
		return nil
	}
	if st.Size > outSeen {
		buf := make([]byte, st.Size-outSeen)
		n, _ := outFile.ReadAt(buf, outSeen)
		outSeen = st.Size
		return &Viol{Props: []string{"C17"}, Class: "output",
			Msg: fmt.Sprintf("%s wrote %d byte(s) to stdout/stderr: %q", what, n, clip(string(buf[:n]), 200))}
	}
	return nil
}

// ---- journal (attributing fatal errors) ------------------------------------

var (
	journalOn   bool
	journalFile *os.File
)

func journalOpen(path string) {
	f, err := os.OpenFile(path, os.O_CREATE|os.O_TRUNC|os.O_WRONLY|os.O_APPEND, 0o644)
	if err == nil {
		journalFile, journalOn = f, true
	}
}

func journalWrite(s string) {
	if journalFile != nil {
		journalFile.WriteString(s + "\n")
	}
}

// ---- liveness horizon / heap ceiling ------------------------------------------

// startMonitor aborts the worker when one library call is in flight for longer
// than horizon (a liveness horizon: calls take microseconds) or the heap
// exceeds ceil bytes.  onAbort receives a description of the call in flight.
func startMonitor(horizon time.Duration, ceil uint64, onAbort func(class, what string)) {
	go func() {
		last := inflightSeq.Load()
		lastChange := time.Now()
		tick := 0
		for {
			time.Sleep(500 * time.Millisecond)
			tick++
			cur := inflightSeq.Load()
			if cur != last {
				last, lastChange = cur, time.Now()
			} else if time.Since(lastChange) > horizon && cur != 0 {
				what := "?"
				if f, ok := inflightFn.Load().(func() string); ok && f != nil {
					what = f()
				}
				onAbort("hang", what)
				return
			}
			if tick%4 == 0 {
				var ms runtime.MemStats
				runtime.ReadMemStats(&ms)
				if ms.HeapAlloc > ceil {
					what := "?"
					if f, ok := inflightFn.Load().(func() string); ok && f != nil {
						what = f()
					}
					onAbort("memory", what)
					return
				}
			}
		}
	}()
}
