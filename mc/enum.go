package main

// C14: enumerable functions over every predicate (all truth tables over
// positions) and every mapping function into a small codomain, for every
// reachable state of the eight enumerable containers.

import (
	"fmt"
)

// enumAdapter is the type-erased view of one container in one state.
type enumAdapter struct {
	name     string
	seq      []Pair // iteration sequence according to the reference (index|key, value)
	each     func(cb func(a, b any))
	anyF     func(cb func(a, b any) bool) bool
	allF     func(cb func(a, b any) bool) bool
	find     func(cb func(a, b any) bool) (any, any)
	findNone Pair
	// selectF runs Select with cb and returns a validator of the result against the
	// expected matching elements, the result object, and a mutator of the result.
	selectF func(cb func(a, b any) bool) (check func(exp []Pair) *Viol, res any, mutate func(), box func(exp []Pair) Box)
	// mapF: cb returns the codomain index chosen for (a, b)
	mapF     func(cb func(a, b any) int) (check func(chosen []int) *Viol, res any, mutate func(), box func(chosen []int) Box)
	codomain int // number of codomain elements
	recvKey  func() string
	recvObj  any
	recheck  func() *Viol // receiver still agrees with its reference
	// followCap > 0: result-as-root continuations use an evenly spaced selection of this many operations
	// (family jobs over large universes)
	followCap int
}

func posOf(seq []Pair, a any) int {
	for i, p := range seq {
		if anyEqv(p.A, a) {
			return i
		}
	}
	return -1
}

func retag(v *Viol, prop, prefix string) *Viol {
	if v == nil {
		return nil
	}
	return &Viol{Props: []string{prop}, Class: v.Class, Msg: prefix + v.Msg}
}

// enumPred is one predicate over positions; for n <= maxAll the family is ALL 2^n truth tables, above
// it a fixed family (reported in the evidence as enum_states_family_mode).
type enumPred struct {
	name string
	at   func(i int) bool
}

func enumPreds(n, maxAll int) []enumPred {
	var ps []enumPred
	if n <= maxAll {
		for mask := 0; mask < 1<<uint(n); mask++ {
			mask := mask
			ps = append(ps, enumPred{fmt.Sprintf("truth table %b", mask), func(i int) bool { return mask&(1<<uint(i)) != 0 }})
		}
		return ps
	}
	return []enumPred{
		{"never", func(i int) bool { return false }}, {"always", func(i int) bool { return true }},
		{"first", func(i int) bool { return i == 0 }}, {"last", func(i int) bool { return i == n-1 }},
		{"middle", func(i int) bool { return i == n/2 }}, {"all but middle", func(i int) bool { return i != n/2 }},
		{"even", func(i int) bool { return i%2 == 0 }}, {"odd", func(i int) bool { return i%2 == 1 }},
		{"front half", func(i int) bool { return i < n/2 }}, {"back half", func(i int) bool { return i >= n/2 }},
		{"every third", func(i int) bool { return i%3 == 0 }}, {"all but last", func(i int) bool { return i != n-1 }},
		{"all but first", func(i int) bool { return i != 0 }},
	}
}

// enumMaps: every function from positions into the codomain (k^n, capped by maxFns and reported) for
// n <= maxAll, a fixed family above it.
func enumMaps(n, k, maxAll, maxFns int, st *Stats) [][]int {
	var fs [][]int
	if k == 0 {
		return nil
	}
	if n <= maxAll {
		total := 1
		for i := 0; i < n; i++ {
			total *= k
		}
		if total > maxFns {
			st.Nested["map_function_spaces_capped"]++
			total = maxFns
		}
		for fn := 0; fn < total; fn++ {
			choice := make([]int, n)
			x := fn
			for i := 0; i < n; i++ {
				choice[i] = x % k
				x /= k
			}
			fs = append(fs, choice)
		}
		return fs
	}
	for _, f := range []func(i int) int{
		func(i int) int { return 0 }, func(i int) int { return k - 1 }, func(i int) int { return i % k },
		func(i int) int { return (i / 2) % k }, func(i int) int { return (n - 1 - i) % k }, func(i int) int {
			if i == n/2 {
				return k - 1
			}
			return 0
		}} {
		choice := make([]int, n)
		for i := range choice {
			choice[i] = f(i)
		}
		fs = append(fs, choice)
	}
	return fs
}

// resultAsRoot: the container returned by Select / Map is itself a start state - every operation of
// the alphabet is applied to a freshly computed result, each step under the family's own oracle.
func resultAsRoot(mk func() Box, what string, maxOps int, st *Stats) *Viol {
	b0 := mk()
	if b0 == nil {
		return nil
	}
	ops := b0.Ops()
	if maxOps > 0 && len(ops) > maxOps {
		// large receivers (family mode): an evenly spaced selection of the alphabet, first and last included
		var sel []Op
		for i := 0; i < maxOps; i++ {
			sel = append(sel, ops[i*(len(ops)-1)/(maxOps-1)])
		}
		ops = sel
	}
	for _, o := range ops {
		rb := mk()
		d := rb.Describe(o)
		v := safeStep(rb, o, nil)
		if v == nil {
			v = safeCheck(rb.CheckState, nil, "state observers of the result")
		}
		st.Nested["result_followup_transitions"]++
		if v != nil {
			return &Viol{Props: []string{"C14"}, Class: v.Class, Msg: fmt.Sprintf("%s, then %s on the result: %s", what, d, v.Msg)}
		}
	}
	return nil
}

func enumCheck(ad *enumAdapter, maxAll, maxMapFns int, st *Stats) *Viol {
	p := tag("C14")
	n := len(ad.seq)
	key0 := ad.recvKey()
	famOps := ad.followCap
	if n > maxAll {
		st.Nested["enum_states_family_mode"]++
		if famOps == 0 {
			famOps = 16
		}
	}
	var log []Pair
	checkLog := func(what string, full bool, stopAt int) *Viol {
		// log must be the iteration sequence (full) or its prefix ending at stopAt (inclusive); a
		// longer prefix is allowed for Any/All/Find (stopping at the deciding element is not required)
		if full && len(log) != n {
			return viol(p, "mismatch", "%s on %s invoked the callback %d times over %d elements: %v", what, ad.name, len(log), n, log)
		}
		if !full && (len(log) > n || (stopAt >= 0 && len(log) < stopAt+1) || (stopAt < 0 && len(log) != n)) {
			return viol(p, "mismatch", "%s on %s invoked the callback %d times; the deciding element is at position %d of %d: %v", what, ad.name, len(log), stopAt, n, log)
		}
		for i, l := range log {
			if !pairEq(l, ad.seq[i]) {
				return viol(p, "mismatch", "%s on %s: callback invocation #%d got %v, the iterator's element #%d is %v", what, ad.name, i, l, i, ad.seq[i])
			}
		}
		return nil
	}
	// positions by callback argument: the invocation order is checked against the iterator's
	// sequence, so the k-th invocation is position k (posOf is kept for small n as a cross-check)
	// Each
	log = nil
	ad.each(func(a, b any) { log = append(log, Pair{a, b}) })
	if v := checkLog("Each", true, -1); v != nil {
		return v
	}
	st.Nested["enum_calls"]++
	preds := enumPreds(n, maxAll)
	for pi, ep := range preds {
		inflightSeq.Add(1)
		ep := ep
		pred := func(a, b any) bool {
			log = append(log, Pair{a, b})
			i := posOf(ad.seq, a)
			return i >= 0 && ep.at(i)
		}
		quiet := func(a, b any) bool { i := posOf(ad.seq, a); return i >= 0 && ep.at(i) }
		first := -1
		firstNot := -1
		for i := 0; i < n; i++ {
			if ep.at(i) && first < 0 {
				first = i
			}
			if !ep.at(i) && firstNot < 0 {
				firstNot = i
			}
		}
		log = nil
		if got := ad.anyF(pred); got != (first >= 0) {
			return viol(p, "mismatch", "Any(%s) on %s %v = %v", ep.name, ad.name, ad.seq, got)
		}
		if v := checkLog(fmt.Sprintf("Any(%s)", ep.name), false, first); v != nil {
			return v
		}
		log = nil
		if got := ad.allF(pred); got != (firstNot < 0) {
			return viol(p, "mismatch", "All(%s) on %s %v = %v", ep.name, ad.name, ad.seq, got)
		}
		if v := checkLog(fmt.Sprintf("All(%s)", ep.name), false, firstNot); v != nil {
			return v
		}
		log = nil
		fa, fb := ad.find(pred)
		want := ad.findNone
		if first >= 0 {
			want = ad.seq[first]
		}
		if !pairEq(Pair{fa, fb}, want) {
			return viol(p, "mismatch", "Find(%s) on %s %v = (%v, %v), want %v", ep.name, ad.name, ad.seq, fa, fb, want)
		}
		if v := checkLog(fmt.Sprintf("Find(%s)", ep.name), false, first); v != nil {
			return v
		}
		log = nil
		check, res, mutate, _ := ad.selectF(pred)
		if v := checkLog(fmt.Sprintf("Select(%s)", ep.name), true, -1); v != nil {
			return v
		}
		var exp []Pair
		for i := 0; i < n; i++ {
			if ep.at(i) {
				exp = append(exp, ad.seq[i])
			}
		}
		if v := check(exp); v != nil {
			return retag(v, "C14", fmt.Sprintf("Select(%s) on %s %v: result: ", ep.name, ad.name, ad.seq))
		}
		if res == ad.recvObj {
			return viol(p, "invariant", "Select on %s returned the receiver itself", ad.name)
		}
		st.Nested["enum_calls"] += 4
		if n <= maxAll || ep.name == "always" || ep.name == "even" || ep.name == "back half" {
			if v := resultAsRoot(func() Box { _, _, _, box := ad.selectF(quiet); return box(exp) },
				fmt.Sprintf("Select(%s) on %s %v", ep.name, ad.name, clipSeq(ad.seq)), famOps, st); v != nil {
				return v
			}
		}
		if pi == len(preds)-1 || pi == 1 || ep.name == "always" || ep.name == "first" {
			// independence (also catches package-level scratch state): a second result, then
			// mutate the first; the receiver and the second result must not change
			check2, _, _, _ := ad.selectF(quiet)
			mutate()
			if v := check2(exp); v != nil {
				return retag(v, "C14", fmt.Sprintf("Select(%s) on %s: mutating one result changed a second result: ", ep.name, ad.name))
			}
			if k := ad.recvKey(); k != key0 {
				return viol(p, "invariant", "mutating the result of Select on %s changed the receiver: %s -> %s", ad.name, clip(key0, 300), clip(k, 300))
			}
			if v := ad.recheck(); v != nil {
				return retag(v, "C14", "after mutating the result of Select the receiver disagrees with its reference: ")
			}
			st.Nested["independence_checks"]++
		}
		if sh := SharedMemory(res, ad.recvObj); len(sh) > 0 {
			st.Nested["results_sharing_memory_with_receiver"]++
			mutate()
			if k := ad.recvKey(); k != key0 {
				return viol(p, "invariant", "the result of Select on %s shares %v with the receiver; mutating it changed the receiver", ad.name, sh)
			}
		}
	}
	// Map
	fns := enumMaps(n, ad.codomain, maxAll, maxMapFns, st)
	for fi, choice := range fns {
		inflightSeq.Add(1)
		choice := choice
		log = nil
		check, res, mutate, _ := ad.mapF(func(a, b any) int {
			log = append(log, Pair{a, b})
			i := posOf(ad.seq, a)
			if i < 0 {
				return 0
			}
			return choice[i]
		})
		if v := checkLog(fmt.Sprintf("Map(%v)", choice), true, -1); v != nil {
			return v
		}
		if v := check(choice); v != nil {
			return retag(v, "C14", fmt.Sprintf("Map(position -> codomain %v) on %s %v: result: ", choice, ad.name, ad.seq))
		}
		if res == ad.recvObj {
			return viol(p, "invariant", "Map on %s returned the receiver itself", ad.name)
		}
		st.Nested["enum_calls"]++
		st.Nested["map_functions"]++
		// the result as a start state: for every function when there are at most 27 of them,
		// otherwise for the constant, the last and every 13th function
		if len(fns) <= 27 || fi == 0 || fi == len(fns)-1 || fi%13 == 0 {
			if v := resultAsRoot(func() Box {
				_, _, _, box := ad.mapF(func(a, b any) int {
					i := posOf(ad.seq, a)
					if i < 0 {
						return 0
					}
					return choice[i]
				})
				return box(choice)
			}, fmt.Sprintf("Map(position -> codomain %v) on %s %v", choice, ad.name, clipSeq(ad.seq)), famOps, st); v != nil {
				return v
			}
		}
		if fi == 0 || fi == len(fns)-1 {
			mutate()
			if k := ad.recvKey(); k != key0 {
				return viol(p, "invariant", "mutating the result of Map on %s changed the receiver: %s -> %s", ad.name, clip(key0, 300), clip(k, 300))
			}
			if v := ad.recheck(); v != nil {
				return retag(v, "C14", "after mutating the result of Map the receiver disagrees with its reference: ")
			}
		}
	}
	if k := ad.recvKey(); k != key0 {
		return viol(tag("C14", "C18"), "invariant", "enumerable functions changed the receiver %s: %s -> %s", ad.name, clip(key0, 300), clip(k, 300))
	}
	return nil
}

// ---- adapters -----------------------------------------------------------------

func (b *listBox[T]) enumAdapter() *enumAdapter {
	var zero T
	cod := append([]T{}, b.sys.U...)
	if b.sys.Gen != nil {
		cod = []T{b.sys.Gen(1000001), b.sys.Gen(1000002), b.sys.Gen(1000003)}
	}
	return &enumAdapter{name: b.a.name, seq: b.ExpSeq(), codomain: len(cod), findNone: Pair{-1, zero},
		recvKey: b.Key, recvObj: b.a.obj, recheck: b.CheckState,
		each: func(cb func(a, b any)) { b.a.each(func(i int, v T) { cb(i, v) }) },
		anyF: func(cb func(a, b any) bool) bool { return b.a.anyF(func(i int, v T) bool { return cb(i, v) }) },
		allF: func(cb func(a, b any) bool) bool { return b.a.allF(func(i int, v T) bool { return cb(i, v) }) },
		find: func(cb func(a, b any) bool) (any, any) { return b.a.find(func(i int, v T) bool { return cb(i, v) }) },
		selectF: func(cb func(a, b any) bool) (func([]Pair) *Viol, any, func(), func([]Pair) Box) {
			r := b.a.selectF(func(i int, v T) bool { return cb(i, v) })
			return func(exp []Pair) *Viol {
					rb := &listBox[T]{sys: b.sys, a: r}
					for _, e := range exp {
						rb.ref = append(rb.ref, e.B.(T))
					}
					return rb.CheckState()
				}, r.obj, func() { r.add(b.sys.Poison); r.set(0, b.sys.Poison); r.remove(0) }, func(exp []Pair) Box {
					rb := &listBox[T]{sys: b.sys, a: r, next: b.next + 1000}
					for _, e := range exp {
						rb.ref = append(rb.ref, e.B.(T))
					}
					return rb
				}
		},
		mapF: func(cb func(a, b any) int) (func([]int) *Viol, any, func(), func([]int) Box) {
			r := b.a.mapF(func(i int, v T) T { return cod[cb(i, v)] })
			return func(ch []int) *Viol {
					rb := &listBox[T]{sys: b.sys, a: r}
					for _, c := range ch {
						rb.ref = append(rb.ref, cod[c])
					}
					return rb.CheckState()
				}, r.obj, func() { r.add(b.sys.Poison); r.set(0, b.sys.Poison); r.remove(0) }, func(ch []int) Box {
					rb := &listBox[T]{sys: b.sys, a: r, next: b.next + 1000}
					for _, c := range ch {
						rb.ref = append(rb.ref, cod[c])
					}
					return rb
				}
		}}
}

func (b *setBox[T]) enumAdapter() *enumAdapter {
	if b.a.each == nil {
		return nil
	}
	var zero T
	cod := append([]T{}, b.sys.U...)
	if len(cod) > 3 {
		cod = cod[:3]
	}
	if b.sys.Gen != nil {
		cod = []T{b.sys.Gen(1000001), b.sys.Gen(1000002), b.sys.Gen(1000003)}
	}
	return &enumAdapter{name: b.a.name + "/" + b.sys.CmpN, seq: b.ExpSeq(), codomain: len(cod), findNone: Pair{-1, zero},
		recvKey: b.Key, recvObj: b.a.obj, recheck: b.CheckState,
		each: func(cb func(a, b any)) { b.a.each(func(i int, v T) { cb(i, v) }) },
		anyF: func(cb func(a, b any) bool) bool { return b.a.anyF(func(i int, v T) bool { return cb(i, v) }) },
		allF: func(cb func(a, b any) bool) bool { return b.a.allF(func(i int, v T) bool { return cb(i, v) }) },
		find: func(cb func(a, b any) bool) (any, any) { return b.a.find(func(i int, v T) bool { return cb(i, v) }) },
		selectF: func(cb func(a, b any) bool) (func([]Pair) *Viol, any, func(), func([]Pair) Box) {
			r := b.a.selectF(func(i int, v T) bool { return cb(i, v) })
			return func(exp []Pair) *Viol {
					rb := &setBox[T]{sys: b.sys, a: r}
					for _, e := range exp {
						rb.refAdd(e.B.(T))
					}
					return rb.CheckState()
				}, r.obj, func() { r.add(b.sys.Absent); r.remove(cod[0]); r.clear() }, func(exp []Pair) Box {
					rb := &setBox[T]{sys: b.sys, a: r, next: b.next + 1000}
					for _, e := range exp {
						rb.refAdd(e.B.(T))
					}
					return rb
				}
		},
		mapF: func(cb func(a, b any) int) (func([]int) *Viol, any, func(), func([]int) Box) {
			r := b.a.mapF(func(i int, v T) T { return cod[cb(i, v)] })
			return func(ch []int) *Viol {
					rb := &setBox[T]{sys: b.sys, a: r}
					for _, c := range ch {
						rb.refAdd(cod[c])
					}
					if v := rb.CheckState(); v != nil {
						return v
					}
					// "built by inserting the mapped elements in iteration order": exactly what a fresh set of
					// the same kind holds after adding them one by one (this fixes WHICH of several
					// equal-comparing images is kept)
					fresh := b.sys.newAPI()
					for _, c := range ch {
						fresh.add(cod[c])
					}
					if got, want := r.values(), fresh.values(); !eqSlice(got, want) {
						return viol(tag("C14"), "mismatch", "Values() = %v, but adding the mapped elements one by one to a fresh %s gives %v", got, b.a.name, want)
					}
					return nil
				}, r.obj, func() { r.add(b.sys.Absent); r.remove(cod[0]); r.clear() }, func(ch []int) Box {
					rb := &setBox[T]{sys: b.sys, a: r, next: b.next + 1000}
					for _, c := range ch {
						rb.refAdd(cod[c])
					}
					return rb
				}
		}}
}

func (b *kvBox[K, V]) enumAdapter() *enumAdapter {
	if b.a.each == nil || b.sys.Pos {
		return nil
	}
	var zk K
	var zv V
	type kv struct {
		k K
		v V
	}
	var cod []kv
	ku, vu := b.sys.KU, b.sys.VU
	if len(vu) == 0 {
		vu = []V{b.sys.Fresh(1001), b.sys.Fresh(1002)}
	}
	lastV := vu[len(vu)-1]
	if len(ku) > 3 {
		ku = ku[:3]
	}
	if len(vu) > 3 {
		vu = vu[:3]
	}
	for _, k := range ku {
		for _, v := range vu {
			cod = append(cod, kv{k, v})
		}
	}
	return &enumAdapter{name: b.sys.Name(), seq: b.ExpSeq(), codomain: len(cod), findNone: Pair{zk, zv},
		recvKey: b.Key, recvObj: b.a.obj, recheck: b.CheckState,
		each: func(cb func(a, b any)) { b.a.each(func(k K, v V) { cb(k, v) }) },
		anyF: func(cb func(a, b any) bool) bool { return b.a.anyF(func(k K, v V) bool { return cb(k, v) }) },
		allF: func(cb func(a, b any) bool) bool { return b.a.allF(func(k K, v V) bool { return cb(k, v) }) },
		find: func(cb func(a, b any) bool) (any, any) { return b.a.find(func(k K, v V) bool { return cb(k, v) }) },
		selectF: func(cb func(a, b any) bool) (func([]Pair) *Viol, any, func(), func([]Pair) Box) {
			r := b.a.selectF(func(k K, v V) bool { return cb(k, v) })
			return func(exp []Pair) *Viol {
					rb := &kvBox[K, V]{sys: b.sys, a: r}
					for _, e := range exp {
						rb.refPut(e.A.(K), e.B.(V))
					}
					return rb.CheckState()
				}, r.obj, func() { r.put(b.sys.KU[len(b.sys.KU)-1], lastV); r.remove(b.sys.KU[0]); r.clear() }, func(exp []Pair) Box {
					rb := &kvBox[K, V]{sys: b.sys, a: r}
					for _, e := range exp {
						rb.refPut(e.A.(K), e.B.(V))
					}
					return rb
				}
		},
		mapF: func(cb func(a, b any) int) (func([]int) *Viol, any, func(), func([]int) Box) {
			r := b.a.mapF(func(k K, v V) (K, V) { c := cod[cb(k, v)]; return c.k, c.v })
			return func(ch []int) *Viol {
					rb := &kvBox[K, V]{sys: b.sys, a: r}
					for _, c := range ch {
						rb.refPut(cod[c].k, cod[c].v)
					}
					if v := rb.CheckState(); v != nil {
						return v
					}
					// exactly what repeated Put on a fresh map of the same kind and configuration gives
					fresh := b.sys.newBox().a
					for _, c := range ch {
						fresh.put(cod[c].k, cod[c].v)
					}
					if gk, wk := r.keys(), fresh.keys(); !eqSlice(gk, wk) {
						return viol(tag("C14"), "mismatch", "Keys() = %v, but putting the mapped pairs one by one into a fresh %s gives %v", gk, b.a.name, wk)
					}
					if gv, wv := r.values(), fresh.values(); !eqSlice(gv, wv) {
						return viol(tag("C14"), "mismatch", "Values() = %v, but putting the mapped pairs one by one into a fresh %s gives %v", gv, b.a.name, wv)
					}
					return nil
				}, r.obj, func() { r.put(b.sys.KU[len(b.sys.KU)-1], lastV); r.remove(b.sys.KU[0]); r.clear() }, func(ch []int) Box {
					rb := &kvBox[K, V]{sys: b.sys, a: r}
					for _, c := range ch {
						rb.refPut(cod[c].k, cod[c].v)
					}
					return rb
				}
		}}
}

type enumerable interface{ enumAdapter() *enumAdapter }

func init() {
	jobKinds["enum"] = func(j Job, r *JobResult) {
		c := j.s("c", "")
		var s Sys
		switch c {
		case "treemap", "linkedhashmap", "treebidimap":
			u, vu := j.p("u", 3), j.p("vu", 2)
			cmpN, vcmpN := j.s("cmp", "nat"), j.s("vcmp", "nat")
			s = &KVSys[int, int]{Kind: c, CmpN: cmpN, VCmpN: vcmpN, N: j.p("n", u), KU: intU(u), VU: intU(vu),
				KCmp: intCmp(cmpN), VCmp: intCmp(vcmpN), PropsL: kvProps}
		default:
			s = makeSys(c, j)
		}
		maxFns := j.p("maxfns", 100000)
		exploreJob(j, r, s, func(e *Explorer) {
			e.NoState = true
			e.OnState = func(path []Op, build func() Inst, st *Stats) *Viol {
				en, ok := build().(enumerable)
				if !ok {
					return nil
				}
				ad := en.enumAdapter()
				if ad == nil {
					return nil
				}
				st.Nested["enum_states"]++
				return enumCheck(ad, j.p("maxn", 5), maxFns, st)
			}
		})
	}
}

func clipSeq(seq []Pair) string {
	if len(seq) <= 12 {
		return fmt.Sprint(seq)
	}
	return fmt.Sprintf("%v .. (%d elements) .. %v", seq[:4], len(seq), seq[len(seq)-2:])
}
