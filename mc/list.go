package main

// The three lists against one abstract sequence (C03).

import (
	"encoding/json"
	"fmt"
	"math"
	"sort"
	"strings"

	"github.com/emirpasic/gods/v2/lists/arraylist"
	"github.com/emirpasic/gods/v2/lists/doublylinkedlist"
	"github.com/emirpasic/gods/v2/lists/singlylinkedlist"
)

type listAPI[T comparable] struct {
	obj      any
	name     string
	add      func(...T)
	app      func(...T) // Append (nil: ArrayList)
	prep     func(...T) // Prepend
	insert   func(int, ...T)
	remove   func(int)
	set      func(int, T)
	swap     func(int, int)
	sortF    func(func(a, b T) int)
	clear    func()
	get      func(int) (T, bool)
	indexOf  func(T) int
	contains func(...T) bool
	values   func() []T
	size     func() int
	empty    func() bool
	str      func() string
	iter     func() *IterDyn
	// enumerable
	each    func(func(int, T))
	anyF    func(func(int, T) bool) bool
	allF    func(func(int, T) bool) bool
	find    func(func(int, T) bool) (int, T)
	selectF func(func(int, T) bool) *listAPI[T]
	mapF    func(func(int, T) T) *listAPI[T]
}

func wrapArrayList[T comparable](c *arraylist.List[T]) *listAPI[T] {
	return &listAPI[T]{obj: c, name: "ArrayList", add: c.Add, insert: c.Insert, remove: c.Remove, set: c.Set, swap: c.Swap,
		sortF: func(f func(a, b T) int) { c.Sort(f) }, clear: c.Clear, get: c.Get, indexOf: c.IndexOf, contains: c.Contains,
		values: c.Values, size: c.Size, empty: c.Empty, str: c.String,
		iter: func() *IterDyn { return idxIterRev[T](c.Iterator()) },
		each: c.Each, anyF: c.Any, allF: c.All, find: c.Find,
		selectF: func(f func(int, T) bool) *listAPI[T] { return wrapArrayList(c.Select(f)) },
		mapF:    func(f func(int, T) T) *listAPI[T] { return wrapArrayList(c.Map(f)) }}
}

func wrapSLL[T comparable](c *singlylinkedlist.List[T]) *listAPI[T] {
	return &listAPI[T]{obj: c, name: "SinglyLinkedList", add: c.Add, app: c.Append, prep: c.Prepend, insert: c.Insert, remove: c.Remove, set: c.Set, swap: c.Swap,
		sortF: func(f func(a, b T) int) { c.Sort(f) }, clear: c.Clear, get: c.Get, indexOf: c.IndexOf, contains: c.Contains,
		values: c.Values, size: c.Size, empty: c.Empty, str: c.String,
		iter: func() *IterDyn { return idxIterFwd[T](c.Iterator()) },
		each: c.Each, anyF: c.Any, allF: c.All, find: c.Find,
		selectF: func(f func(int, T) bool) *listAPI[T] { return wrapSLL(c.Select(f)) },
		mapF:    func(f func(int, T) T) *listAPI[T] { return wrapSLL(c.Map(f)) }}
}

func wrapDLL[T comparable](c *doublylinkedlist.List[T]) *listAPI[T] {
	return &listAPI[T]{obj: c, name: "DoublyLinkedList", add: c.Add, app: c.Append, prep: c.Prepend, insert: c.Insert, remove: c.Remove, set: c.Set, swap: c.Swap,
		sortF: func(f func(a, b T) int) { c.Sort(f) }, clear: c.Clear, get: c.Get, indexOf: c.IndexOf, contains: c.Contains,
		values: c.Values, size: c.Size, empty: c.Empty, str: c.String,
		iter: func() *IterDyn { it := c.Iterator(); return idxIterRev[T](&it) },
		each: c.Each, anyF: c.Any, allF: c.All, find: c.Find,
		selectF: func(f func(int, T) bool) *listAPI[T] { return wrapDLL(c.Select(f)) },
		mapF:    func(f func(int, T) T) *listAPI[T] { return wrapDLL(c.Map(f)) }}
}

type ListSys[T comparable] struct {
	Kind   string // arraylist | singlylinkedlist | doublylinkedlist
	U      []T
	Absent T // a value never inserted (IndexOf/Contains probes)
	Poison T
	N      int
	Cmps   map[string]func(a, b T) int // nat, rev, coarse
	NoCtor bool                        // do not offer the variadic-constructor operations
	Label  string
	// JSONTexts: inputs offered as FromJSON operations (null entries over whatever the backing array held)
	JSONTexts []string
	// Deep mode (data independence): every inserted value is fresh (Gen(counter)) and of a type
	// the fingerprint drops, so the state is (length, capacity) only and sizes of 40-100 are
	// affordable; the alphabet is reduced to the index alignments that matter.
	Gen func(i int) T
}

func (s *ListSys[T]) Name() string    { return s.Kind + s.Label }
func (s *ListSys[T]) Props() []string { return []string{"C03", "C15", "C16"} }
func (s *ListSys[T]) New() Inst       { return s.newBox() }
func (s *ListSys[T]) newAPI(vals ...T) *listAPI[T] {
	switch s.Kind {
	case "arraylist":
		return wrapArrayList(arraylist.New[T](vals...))
	case "singlylinkedlist":
		return wrapSLL(singlylinkedlist.New[T](vals...))
	case "doublylinkedlist":
		return wrapDLL(doublylinkedlist.New[T](vals...))
	}
	panic("list kind " + s.Kind)
}
func (s *ListSys[T]) newBox() *listBox[T] { return &listBox[T]{sys: s, a: s.newAPI()} }

type listBox[T comparable] struct {
	sys  *ListSys[T]
	a    *listAPI[T]
	ref  []T
	next int // fresh-value counter (deep mode)
}

// universe of probe values: the fixed universe, or (deep mode) first/middle/last element
func (b *listBox[T]) probeVals() []T {
	if b.sys.Gen == nil {
		return append(append([]T{}, b.sys.U...), b.sys.Absent)
	}
	var vs []T
	if n := len(b.ref); n > 0 {
		vs = append(vs, b.ref[0], b.ref[n/2], b.ref[n-1])
	}
	return append(vs, b.sys.Absent)
}

func (b *listBox[T]) setVal(u int) T {
	if b.sys.Gen != nil {
		return b.sys.Gen(b.next + 1)
	}
	return b.sys.U[u]
}

// argument tuples (as universe indices)
var listTuples = [][]int{{}, {0}, {1}, {2}, {0, 1}, {1, 0}, {2, 2}, {0, 1, 2}, {2, 1, 0}}

const nInsertTuples = 8 // up to the first three-value tuple: a block of >= 3 inserted elements has an inner element

var cmpNames = []string{"nat", "rev", "coarse"}

func (b *listBox[T]) idxs() []int {
	n := len(b.ref)
	r := []int{math.MinInt, -1}
	for i := 0; i <= n+1; i++ {
		r = append(r, i)
	}
	return append(r, math.MaxInt)
}

func (b *listBox[T]) tuple(ti int) []T {
	if ti >= 100 {
		vs := make([]T, ti-100)
		for i := range vs {
			vs[i] = b.sys.Gen(b.next + 1 + i)
		}
		return vs
	}
	t := listTuples[ti]
	vs := make([]T, len(t))
	for i, u := range t {
		if b.sys.Gen != nil {
			vs[i] = b.sys.Gen(b.next + 1 + i)
		} else {
			vs[i] = b.sys.U[u%len(b.sys.U)]
		}
	}
	return vs
}

// bulk tuples (deep mode): index 100+k stands for k fresh values in one call
func bulkLen(ti int) int {
	if ti >= 100 {
		return ti - 100
	}
	return len(listTuples[ti])
}

func (b *listBox[T]) deepOps() []Op {
	n := len(b.ref)
	room := b.sys.N - n
	var ops []Op
	names := []string{"Add"}
	if b.a.app != nil {
		names = append(names, "Prepend")
	}
	for _, nm := range names {
		for _, ti := range []int{1, 7, 117, 133, 164} { // one value, three values, bulk calls of 17 / 33 / 64 values
			if bulkLen(ti) <= room {
				ops = append(ops, op(nm, ti))
			}
		}
	}
	idx := map[int]bool{}
	var is []int
	for _, i := range []int{0, 1, n / 2, n - 2, n - 1, n} {
		if i >= 0 && !idx[i] {
			idx[i] = true
			is = append(is, i)
		}
	}
	for _, i := range is {
		for _, ti := range []int{1, 4, 133} { // one value, two values, 33 values
			if bulkLen(ti) <= room {
				ops = append(ops, op("Insert", i, ti))
			}
		}
		if i < n {
			ops = append(ops, op("Remove", i))
		}
		if i < n || room >= 1 {
			ops = append(ops, op("Set", i, 0))
		}
	}
	if n >= 2 {
		ops = append(ops, op("Swap", 0, n-1), op("Swap", n/2, n-1))
	}
	return append(ops, op("Sort", 0), op("Sort", 1), op("Clear"))
}

func (b *listBox[T]) Ops() []Op {
	if b.sys.Gen != nil {
		return b.deepOps()
	}
	var ops []Op
	n := len(b.ref)
	room := b.sys.N - n
	if n == 0 && !b.sys.NoCtor {
		// constructor forms: a list built by New(values...) takes the place of the empty one
		for ti, t := range listTuples {
			if len(t) > 0 && len(t) <= room {
				ops = append(ops, op("New", ti))
			}
		}
	}
	names := []string{"Add"}
	if b.a.app != nil {
		names = append(names, "Append", "Prepend")
	}
	for _, nm := range names {
		for ti, t := range listTuples {
			if len(t) <= room {
				ops = append(ops, op(nm, ti))
			}
		}
	}
	for _, i := range b.idxs() {
		for ti := 0; ti < nInsertTuples; ti++ {
			if len(listTuples[ti]) <= room {
				ops = append(ops, op("Insert", i, ti))
			}
		}
	}
	for _, i := range b.idxs() {
		ops = append(ops, op("Remove", i))
	}
	for _, i := range b.idxs() {
		if i == n && room < 1 {
			continue
		}
		for u := range b.sys.U {
			ops = append(ops, op("Set", i, u))
		}
	}
	for i := -1; i <= n; i++ {
		for j := -1; j <= n; j++ {
			ops = append(ops, op("Swap", i, j))
		}
	}
	for c := range cmpNames {
		ops = append(ops, op("Sort", c))
	}
	ops = append(ops, op("Clear"))
	for ti := range b.sys.JSONTexts {
		ops = append(ops, op("FromJSON", ti))
	}
	return ops
}

func (b *listBox[T]) Describe(o Op) string {
	switch o.N {
	case "Add", "Append", "Prepend":
		return fmt.Sprintf("%s(%v...)", o.N, b.tuple(o.A[0]))
	case "Insert":
		return fmt.Sprintf("Insert(%d, %v...)", o.A[0], b.tuple(o.A[1]))
	case "Remove":
		return fmt.Sprintf("Remove(%d)", o.A[0])
	case "Set":
		return fmt.Sprintf("Set(%d, %v)", o.A[0], b.setVal(o.A[1]))
	case "Swap":
		return fmt.Sprintf("Swap(%d, %d)", o.A[0], o.A[1])
	case "Sort":
		return fmt.Sprintf("Sort(%s)", cmpNames[o.A[0]])
	case "FromJSON":
		return fmt.Sprintf("FromJSON(%s)", b.sys.JSONTexts[o.A[0]])
	case "New":
		return fmt.Sprintf("replaced by New(%v...)", b.tuple(o.A[0]))
	}
	return o.N + "()"
}

func (b *listBox[T]) Size() int   { return len(b.ref) }
func (b *listBox[T]) Key() string { return Canon(CanonOpts{}, b.a.obj) }
func (b *listBox[T]) Obs() string { return fmtVals(b.ref) }

func splice[T any](s []T, i int, vs []T) []T {
	r := make([]T, 0, len(s)+len(vs))
	r = append(r, s[:i]...)
	r = append(r, vs...)
	return append(r, s[i:]...)
}

// Step = Do (the operation on the real object and the reference, return values compared)
// followed by Content (the cheap observer comparison that runs on every transition).
func (b *listBox[T]) Step(o Op) *Viol {
	if v := b.Do(o); v != nil {
		return v
	}
	return b.content()
}

func (b *listBox[T]) Content() *Viol { return b.content() }

func (b *listBox[T]) Do(o Op) *Viol {
	n := len(b.ref)
	in := func(i int) bool { return i >= 0 && i < n }
	switch o.N {
	case "Add", "Append", "Prepend":
		vs := b.tuple(o.A[0])
		b.next += len(vs)
		arg := argSlice(vs)
		switch o.N {
		case "Add":
			b.a.add(arg...)
		case "Append":
			b.a.app(arg...)
		case "Prepend":
			b.a.prep(arg...)
		}
		if v := scribbleCheck(arg, b.sys.Poison, b.a.values, b.a.name, o.N); v != nil {
			return v
		}
		if o.N == "Prepend" {
			b.ref = splice(b.ref, 0, vs)
		} else {
			b.ref = splice(b.ref, n, vs)
		}
	case "Insert":
		vs := b.tuple(o.A[1])
		b.next += len(vs)
		arg := argSlice(vs)
		b.a.insert(o.A[0], arg...)
		if v := scribbleCheck(arg, b.sys.Poison, b.a.values, b.a.name, o.N); v != nil {
			return v
		}
		if i := o.A[0]; i >= 0 && i <= n {
			b.ref = splice(b.ref, i, vs)
		}
	case "Remove":
		b.a.remove(o.A[0])
		if i := o.A[0]; in(i) {
			b.ref = append(append([]T{}, b.ref[:i]...), b.ref[i+1:]...)
		}
	case "Set":
		v := b.setVal(o.A[1])
		b.next++
		b.a.set(o.A[0], v)
		if i := o.A[0]; in(i) {
			b.ref = append([]T{}, b.ref...)
			b.ref[i] = v
		} else if i == n {
			b.ref = splice(b.ref, n, []T{v})
		}
	case "Swap":
		i, j := o.A[0], o.A[1]
		b.a.swap(i, j)
		if in(i) && in(j) {
			b.ref = append([]T{}, b.ref...)
			b.ref[i], b.ref[j] = b.ref[j], b.ref[i]
		}
	case "Sort":
		cmp := b.sys.Cmps[cmpNames[o.A[0]]]
		b.a.sortF(cmp)
		got := b.a.values()
		// the result must be a comparator-sorted permutation of the reference; ties are
		// free (Sort is not stable), the reference adopts the implementation's choice
		if !sameMultiset(got, b.ref) {
			return viol(tag("C03"), "mismatch", "Sort(%s) changed the multiset of elements: %v -> %v", cmpNames[o.A[0]], b.ref, got)
		}
		for i := 1; i < len(got); i++ {
			if cmp(got[i-1], got[i]) > 0 {
				return viol(tag("C03"), "mismatch", "Sort(%s) left %v, not sorted at position %d", cmpNames[o.A[0]], got, i)
			}
		}
		b.ref = append([]T{}, got...)
	case "Clear":
		b.a.clear()
		b.ref = nil
	case "New":
		vs := b.tuple(o.A[0])
		arg := argSlice(vs)
		b.a = b.sys.newAPI(arg...)
		if v := scribbleCheck(arg, b.sys.Poison, b.a.values, b.a.name, "New"); v != nil {
			return v
		}
		b.ref = append([]T{}, vs...)
	case "FromJSON":
		data := []byte(b.sys.JSONTexts[o.A[0]])
		if err := b.a.obj.(interface{ FromJSON([]byte) error }).FromJSON(data); err != nil {
			return viol(tag("C03", "C12"), "mismatch", "FromJSON(%s) failed: %v", data, err)
		}
		if !b.LoadRef(data) {
			panic("tool error: reference cannot decode " + string(data))
		}
	default:
		panic("list op " + o.N)
	}
	return nil
}

func (b *listBox[T]) content() *Viol {
	if got := b.a.values(); !eqSlice(got, b.ref) {
		return viol(tag("C03"), "mismatch", "Values() = %v, abstract sequence = %v", got, b.ref)
	}
	if got := b.a.size(); got != len(b.ref) {
		return viol(tag("C03", "C15"), "mismatch", "Size() = %d, abstract sequence has %d elements", got, len(b.ref))
	}
	return nil
}

func (b *listBox[T]) probeTuples() [][]T {
	vals := b.probeVals()
	ts := [][]T{{}}
	for _, x := range vals {
		ts = append(ts, []T{x})
	}
	for _, x := range vals {
		for _, y := range vals {
			ts = append(ts, []T{x, y})
		}
	}
	return ts
}

func (b *listBox[T]) CheckState() *Viol {
	if v := b.content(); v != nil {
		return v
	}
	n := len(b.ref)
	var zero T
	if e := b.a.empty(); e != (n == 0) {
		return viol(tag("C03", "C15"), "invariant", "Empty() = %v with %d elements", e, n)
	}
	if s := b.a.str(); !strings.HasPrefix(s, b.a.name) {
		return viol(tag("C15"), "invariant", "String() = %q does not begin with %q", s, b.a.name)
	}
	for _, i := range b.idxs() {
		got, ok := b.a.get(i)
		if i >= 0 && i < n {
			if !ok || got != b.ref[i] {
				return viol(tag("C03"), "mismatch", "Get(%d) = (%v, %v), abstract sequence %v", i, got, ok, b.ref)
			}
		} else if ok || got != zero {
			return viol(tag("C03"), "mismatch", "Get(%d) = (%v, %v) out of range, want (zero, false); size %d", i, got, ok, n)
		}
	}
	for _, x := range b.probeVals() {
		want := -1
		for i, v := range b.ref {
			if v == x {
				want = i
				break
			}
		}
		if got := b.a.indexOf(x); got != want {
			return viol(tag("C03"), "mismatch", "IndexOf(%v) = %d, abstract sequence %v says %d", x, got, b.ref, want)
		}
	}
	for _, t := range b.probeTuples() {
		want := true
		for _, x := range t {
			f := false
			for _, v := range b.ref {
				if v == x {
					f = true
				}
			}
			want = want && f
		}
		arg := argSlice(t)
		if got := b.a.contains(arg...); got != want {
			return viol(tag("C03"), "mismatch", "Contains(%v...) = %v, abstract sequence %v says %v", t, got, b.ref, want)
		}
	}
	// long argument lists: every element twice, one present value nine and sixteen times, the same plus an absent one
	if n > 0 {
		long := append(append([]T{}, b.ref...), b.ref...)
		if !b.a.contains(argSlice(long)...) {
			return viol(tag("C03"), "mismatch", "Contains(every element, twice: %d arguments) = false", len(long))
		}
		for _, k := range []int{9, 16, 33} {
			rep := make([]T, k)
			for i := range rep {
				rep[i] = b.ref[(i*7)%n]
			}
			rep[k-1] = rep[0]
			if !b.a.contains(argSlice(rep)...) {
				return viol(tag("C03"), "mismatch", "Contains(%v...) = false although every argument is in %v", rep, b.ref)
			}
			absent := true // the designated absent value may have been loaded from JSON
			for _, x := range b.ref {
				if x == b.sys.Absent {
					absent = false
				}
			}
			rep[k/2] = b.sys.Absent
			if absent && b.a.contains(argSlice(rep)...) {
				return viol(tag("C03"), "mismatch", "Contains(%v...) = true although %v is absent from %v", rep, b.sys.Absent, b.ref)
			}
		}
	}
	// argument lists longer than a machine word has bits (65, 130): the late arguments are a value that
	// occurs more than once in the list (if there is one) and an absent value, in both orders
	if n > 0 {
		absent := true
		mult := map[T]int{}
		for _, x := range b.ref {
			mult[x]++
			if x == b.sys.Absent {
				absent = false
			}
		}
		cands := []T{b.ref[n-1]}
		for _, x := range b.ref {
			if mult[x] >= 2 && len(cands) < 4 {
				mult[x] = 0
				cands = append(cands, x)
			}
		}
		for _, k := range []int{65, 130} {
			for _, d := range cands {
				rep := make([]T, k)
				for i := range rep {
					rep[i] = b.ref[0]
				}
				rep[k-1] = d
				if !b.a.contains(argSlice(rep)...) {
					return viol(tag("C03"), "mismatch", "Contains(%d arguments: %v repeated, then %v) = false although every argument is in %v", k, b.ref[0], d, clipSlice(b.ref))
				}
				if absent {
					rep[k-2], rep[k-1] = d, b.sys.Absent
					if b.a.contains(argSlice(rep)...) {
						return viol(tag("C03"), "mismatch", "Contains(%d arguments: %v repeated, then %v, %v) = true although %v is absent from %v", k, b.ref[0], d, b.sys.Absent, b.sys.Absent, clipSlice(b.ref))
					}
					rep[0], rep[k-2], rep[k-1] = b.sys.Absent, b.ref[0], d
					if b.a.contains(argSlice(rep)...) {
						return viol(tag("C03"), "mismatch", "Contains(%d arguments: %v, %v repeated, then %v) = true although %v is absent from %v", k, b.sys.Absent, b.ref[0], d, b.sys.Absent, clipSlice(b.ref))
					}
				}
			}
		}
	}
	return pureAll(CanonOpts{}, b.a.obj, b.Readers(), tag("C03"))
}

func clipSlice[T any](xs []T) string { return clip(fmt.Sprint(xs), 200) }

// ---- Box -----------------------------------------------------------------------

func (b *listBox[T]) Obj() any          { return b.a.obj }
func (b *listBox[T]) Opts() CanonOpts   { return CanonOpts{} }
func (b *listBox[T]) NewIter() *IterDyn { return b.a.iter() }
func (b *listBox[T]) ExpSeq() []Pair {
	s := make([]Pair, len(b.ref))
	for i, v := range b.ref {
		s[i] = Pair{i, v}
	}
	return s
}
func (b *listBox[T]) Readers() []Reader {
	rs := []Reader{
		{"Size", func() string { return fmt.Sprint(b.a.size()) }},
		{"Empty", func() string { return fmt.Sprint(b.a.empty()) }},
		{"Values", func() string { return fmtVals(b.a.values()) }},
		{"String", func() string { return b.a.str() }},
		{"ToJSON", func() string { return toJSONString(b.a.obj) }},
		{"Iterate", func() string { return iterateAll(b.a.iter()) }},
		{"Contains()", func() string { return fmt.Sprint(b.a.contains()) }},
	}
	for _, i := range []int{math.MinInt, -1, 0, len(b.ref) / 2, len(b.ref) - 1, len(b.ref), math.MaxInt} {
		i := i
		rs = append(rs, Reader{fmt.Sprintf("Get(%d)", i), func() string { v, ok := b.a.get(i); return fmt.Sprint(v, ok) }})
	}
	for _, x := range b.probeVals() {
		x := x
		rs = append(rs, Reader{fmt.Sprintf("IndexOf(%v)", x), func() string { return fmt.Sprint(b.a.indexOf(x)) }})
		rs = append(rs, Reader{fmt.Sprintf("Contains(%v)", x), func() string { return fmt.Sprint(b.a.contains(x)) }})
	}
	return rs
}
func (b *listBox[T]) Fresh() Box {
	nb := b.sys.newBox()
	nb.next = b.next // deep mode: the fresh-value counter continues, so that the same operations insert the same values
	return nb
}
func (b *listBox[T]) JSONKind() string      { return "array" }
func (b *listBox[T]) Unordered() bool       { return false }
func (b *listBox[T]) ContainerName() string { return b.a.name }
func (b *listBox[T]) Slices() []SliceObs {
	return []SliceObs{{"Values", func() any { return b.a.values() }}}
}
func (b *listBox[T]) Observe() string {
	return fmt.Sprintf("size=%d empty=%v values=%v iter=%s", b.a.size(), b.a.empty(), b.a.values(), iterateAll(b.a.iter()))
}
func (b *listBox[T]) LoadRef(data []byte) bool {
	var vs []T
	if err := json.Unmarshal(data, &vs); err != nil {
		return false
	}
	b.ref = append([]T{}, vs...)
	return true
}

func sortedCopy[T any](vs []T, less func(a, b T) bool) []T {
	c := append([]T{}, vs...)
	sort.SliceStable(c, func(i, j int) bool { return less(c[i], c[j]) })
	return c
}
