package main

// Bounded grammar enumeration of JSON inputs (C12, C17): not a sample.

import (
	"sort"
	"strings"
)

type jsonGrammar struct {
	ArrAtoms  []string
	ArrMaxLen int
	ObjKeys   []string
	ObjVals   []string
	ObjMaxLen int
	PrefixAll bool // every proper prefix of every text
	SubstMax  int  // single-byte substitutions for texts up to this length
	TwoByte   bool // all 256 single bytes and all two-byte strings over structural bytes (C17)
}

func quickGrammar() jsonGrammar {
	return jsonGrammar{
		ArrAtoms: []string{`1`, `2`, `3`, `"a"`, `null`, `true`, `1.5`, `[]`, `{}`}, ArrMaxLen: 2,
		ObjKeys: []string{`"1"`, `"2"`, `"a"`}, ObjVals: []string{`1`, `2`, `"a"`, `null`, `[]`}, ObjMaxLen: 2,
		PrefixAll: true, SubstMax: 8,
	}
}

// structGrammar: the inputs for containers of OV elements / values (objects with omitted fields)
func structGrammar(thorough bool) jsonGrammar {
	atoms := []string{`{}`, `{"p":1}`, `{"q":2}`, `{"p":1,"q":2}`, `null`, `1`}
	g := jsonGrammar{ArrAtoms: atoms, ArrMaxLen: 2, ObjKeys: []string{`"1"`, `"2"`, `"a"`}, ObjVals: atoms, ObjMaxLen: 2, PrefixAll: true, SubstMax: 0}
	if thorough {
		g.ArrMaxLen, g.ObjMaxLen = 3, 3
	}
	return g
}

func thoroughGrammar() jsonGrammar {
	g := quickGrammar()
	g.ArrMaxLen, g.ObjMaxLen, g.SubstMax = 3, 3, 12
	return g
}

func (g jsonGrammar) texts() []string {
	set := map[string]bool{}
	var base []string
	add := func(s string) {
		if !set[s] {
			set[s] = true
			base = append(base, s)
		}
	}
	// arrays
	var arr func(cur []string, l int)
	arr = func(cur []string, l int) {
		if len(cur) == l {
			add("[" + strings.Join(cur, ",") + "]")
			return
		}
		for _, a := range g.ArrAtoms {
			arr(append(cur, a), l)
		}
	}
	for l := 0; l <= g.ArrMaxLen; l++ {
		arr(nil, l)
	}
	// objects (keys with repetition)
	var obj func(cur []string, l int)
	obj = func(cur []string, l int) {
		if len(cur) == l {
			add("{" + strings.Join(cur, ",") + "}")
			return
		}
		for _, k := range g.ObjKeys {
			for _, v := range g.ObjVals {
				obj(append(cur, k+":"+v), l)
			}
		}
	}
	for l := 0; l <= g.ObjMaxLen; l++ {
		obj(nil, l)
	}
	// scalars, empty, whitespace-padded forms
	for _, s := range []string{`null`, `true`, `1`, `"a"`, ``, ` `, ` null `, " [ 1 , 2 ] ", " { \"1\" : 2 } ", "\n[]\t", "[1,2]x", "{}{}", "[1,2],", `{"1":1,}`, `[,]`, `{"a"}`, `{1:2}`, `[1 2]`,
		`[1e400]`, `[-0]`, `[9223372036854775808]`, `["a"]`, `{"1":1}`, `{"01":1}`, `{"1":1,"01":2}`, `{"10":0,"1":0}`, `{"1":1,"10":2,"100":3}`, `{"-1":1,"1":2}`, `{"100":1,"10":2,"1":3}`, `[-1,10,100]`, `{"x":"b","a":"1","b":"2"}`, `{"a":"a","b":"a"}`, `{"1":1,"2":1}`, `[3,1,2,0]`, `[1,2,3,4,5,6,7]`,
		// escapes and number spellings: "\u0031" IS the key "1"; 1E0, 1.0, 10e-1 are the number 1
		`{"\u0031":1}`, `{"1":1,"\u0031":2}`, `{"\u0061":1,"a":2}`, `["\u0061"]`, `["a\nb"]`, `[1E0]`, `[1.0]`, `[10e-1]`, `[1e2]`, `{"1":1e0}`, `{"a":1,"b":2,"a":3}`, `{"2":2,"1":1,"2":3}`, "[ 1 ,\n2 ]", `{"1" :1 , "2": 2}`, `{"+1":1}`, `{"1.0":1}`, `{" 1":1}`, `[-1]`, `[0,-0]`,
		// integers that a detour through float64 would change or accept wrongly
		// non-canonical spellings of integer member names that encoding/json accepts ("01" IS the key 1),
		// after other members (the position of such a member in an insertion-ordered map)
		`{"5":1,"6":2,"01":3}`, `{"2":1,"+1":2,"3":3}`, `{"1":1,"2":2,"-0":3}`, `{"10":1,"007":2,"1":3}`, `{"5":1,"05":2,"6":3}`,
		// the limits of the sized integer types, as elements and as member names
		`[127,-128]`, `[128]`, `[-129]`, `[255,256]`, `[18446744073709551615]`, `[18446744073709551616]`, `[9223372036854775808,0]`,
		`{"127":1,"-128":2}`, `{"128":1}`, `{"-129":1}`, `{"255":1,"0":2}`, `{"256":1}`, `{"18446744073709551615":1,"9223372036854775808":2}`, `{"18446744073709551616":1}`,
		`{"-9223372036854775808":1,"9223372036854775807":2}`, `{"-9223372036854775809":1}`,
		`[9007199254740993]`, `[-9007199254740993,9007199254740992]`, `{"9007199254740993":1}`, `{"1":9007199254740993}`, `[9223372036854775807]`, `[-9223372036854775808]`, `[-9223372036854775809]`, `[1e18]`, `[1.5e1]`} {
		add(s)
	}
	all := append([]string{}, base...)
	if g.PrefixAll {
		for _, s := range base {
			for i := 0; i < len(s); i++ {
				if !set[s[:i]] {
					set[s[:i]] = true
					all = append(all, s[:i])
				}
			}
		}
	}
	if g.SubstMax > 0 {
		for _, s := range base {
			if len(s) > g.SubstMax {
				continue
			}
			for i := 0; i < len(s); i++ {
				for _, c := range []byte(`{}[],:"x`) {
					if s[i] == c {
						continue
					}
					t := s[:i] + string(c) + s[i+1:]
					if !set[t] {
						set[t] = true
						all = append(all, t)
					}
				}
			}
		}
	}
	if g.TwoByte {
		for c := 0; c < 256; c++ {
			t := string([]byte{byte(c)})
			if !set[t] {
				set[t] = true
				all = append(all, t)
			}
		}
		sb := []byte(`{}[],:"x1 n\`)
		for _, a := range sb {
			for _, b := range sb {
				t := string([]byte{a, b})
				if !set[t] {
					set[t] = true
					all = append(all, t)
				}
			}
		}
	}
	sort.SliceStable(all, func(i, j int) bool { return len(all[i]) < len(all[j]) })
	return all
}
