package main

import (
	"fmt"
	"math"

	"github.com/emirpasic/gods/v2/queues/circularbuffer"
	"github.com/emirpasic/gods/v2/trees/btree"
)

// all21 lists every container kind.
var all21 = []string{
	"arraylist", "singlylinkedlist", "doublylinkedlist",
	"hashset", "treeset", "linkedhashset",
	"arraystack", "linkedliststack",
	"arrayqueue", "linkedlistqueue", "circularbuffer", "priorityqueue",
	"hashmap", "treemap", "linkedhashmap", "hashbidimap", "treebidimap",
	"rbt", "avl", "btree", "binaryheap",
}

// OV is an element / value type whose JSON form OMITS zero fields: encoding/json merges a decoded
// object into whatever the destination already holds, so storage that a decoder reuses (a live
// backing array, one variable for all entries of an object) shows only with such a type, with
// null entries, or with pointers.
type OV struct {
	P int `json:"p,omitempty"`
	Q int `json:"q,omitempty"`
}

func ovU(u int) []OV { return []OV{{1, 0}, {0, 2}, {0, 0}, {1, 2}}[:u] }
func ovCmp(a, b OV) int {
	if a.P != b.P {
		return a.P - b.P
	}
	return a.Q - b.Q
}

func ovSys(c string, j Job) Sys {
	n, u := j.p("n", 4), j.p("u", 3)
	if u > 4 {
		u = 4
	}
	rev := func(a, b OV) int { return ovCmp(b, a) }
	switch c {
	case "arraylist", "singlylinkedlist", "doublylinkedlist":
		return &ListSys[OV]{Kind: c, U: ovU(u), Absent: OV{9, 9}, Poison: OV{-99, -99}, N: n,
			Cmps: map[string]func(a, b OV) int{"nat": ovCmp, "rev": rev, "coarse": func(a, b OV) int { return a.P - b.P }}}
	case "hashset", "linkedhashset", "treeset":
		return &SetSys[OV]{Kind: c, CmpN: "nat", U: ovU(u), Absent: OV{9, 9}, Poison: OV{-99, -99}, Cmp: ovCmp, Tuples: defaultSetTuples(u)}
	case "arraystack", "linkedliststack", "arrayqueue", "linkedlistqueue", "circularbuffer":
		return &SeqSys[OV]{Kind: c, Cap: j.p("cap", 3), N: n, Poison: OV{-99, -99}, U: ovU(u)}
	case "binaryheap", "priorityqueue":
		return scalarHeapSys[OV](c, "min", n, ovU(u), OV{-99, -99}, j.p("jsonlen", 2))
	}
	vu := j.p("vu", 3)
	if vu > 4 {
		vu = 4
	}
	return &KVSys[int, OV]{Kind: c, Order: j.p("m", 3), CmpN: "nat", VCmpN: "nat", N: j.p("n", u), KU: intU(u), VU: ovU(vu),
		KCmp: intCmp("nat"), VCmp: ovCmp, PropsL: kvProps, Probes: func(live []int) []int { return []int{-2, u + 2} }}
}

// makeSys builds the system of container kind c.
//
//	n    live bound          u    universe size     cmp/vcmp comparator names
//	cap  ring capacity       m    B-tree order      rank=1 rank-abstract keys (trees)
//	elem "int" (default) | "str": element / key / value type
func makeSys(c string, j Job) Sys {
	n, u := j.p("n", 4), j.p("u", 3)
	cmpN := j.s("cmp", "nat")
	str := j.s("elem", "int") == "str"
	strU := strUniverse
	if j.s("strset", "") == "json" {
		strU = jsonStrUniverse
	}
	hc := "min"
	if cmpN == "rev" {
		hc = "max"
	}
	if j.s("elem", "") == "ov" {
		return ovSys(c, j)
	}
	if ts := typedSysFor(c, j); ts != nil {
		return ts
	}
	deep := j.p("deep", 0) == 1
	valCmps := map[string]func(a, b Val) int{"nat": func(a, b Val) int { return int(a - b) }, "rev": func(a, b Val) int { return int(b - a) }, "coarse": func(a, b Val) int { return int(a/2 - b/2) }}
	switch c {
	case "arraylist", "singlylinkedlist", "doublylinkedlist":
		if deep {
			return &ListSys[Val]{Kind: c, Absent: -1, Poison: -99, N: n, Gen: func(i int) Val { return Val(i) }, Cmps: valCmps}
		}
		if str {
			return &ListSys[string]{Kind: c, U: strU(u), Absent: "zz", Poison: "POISON", N: n,
				Cmps: map[string]func(a, b string) int{"nat": strCmp("nat"), "rev": strCmp("rev"), "coarse": strCmp("coarse")}}
		}
		ls := intListSys(c, n, u)
		if j.p("jsonops", 0) == 1 {
			ls.JSONTexts = []string{`[]`, `null`, `[null]`, `[1,null]`, `[null,null,1]`}
		}
		return ls
	case "hashset", "linkedhashset", "treeset":
		if deep && (c == "linkedhashset" || c == "hashset") {
			return &SetSys[Val]{Kind: c, CmpN: "nat", Absent: -5, Poison: -99, Cmp: func(a, b Val) int { return int(a - b) }, N: n,
				Gen: func(i int) Val { return Val(i) }}
		}
		if j.s("elem", "") == "float" && c != "treeset" {
			// an element type with non-reflexive equality: every NaN is its own member and can never be
			// found or removed again — except by Clear
			nan := math.NaN()
			fc := func(a, b float64) int { return anyCmp(a, b) }
			return &SetSys[float64]{Kind: c, CmpN: "nat", U: []float64{0, 1.5, nan}, Absent: 7.25, Poison: -99, Cmp: fc,
				// (the last tuple: 33 arguments - a bulk path must not lose the members it cannot look up)
				Tuples: [][]int{{}, {0}, {1}, {2}, {0, 2}, {2, 2}, {1, 2, 0}, append(make([]int, 32, 33), 1)}, MaxSize: 4}
		}
		if c == "treeset" && j.s("elem", "") == "float" && j.s("ctor", "") == "default" {
			return kvSysFromJob(j)
		}
		if c == "treeset" && j.p("rank", 0) == 1 {
			jj := j
			jj.S = map[string]string{"c": c, "cmp": cmpN}
			return kvSysFromJob(jj)
		}
		if str {
			return &SetSys[string]{Kind: c, CmpN: cmpN, U: strU(u), Absent: "zz", Poison: "POISON", Cmp: strCmp(cmpN), Tuples: defaultSetTuples(u)}
		}
		return intSetSys(c, cmpN, u)
	case "arraystack", "linkedliststack", "arrayqueue", "linkedlistqueue", "circularbuffer":
		if deep {
			return &SeqSys[Val]{Kind: c, Cap: j.p("cap", 3), N: n, Poison: -99, Gen: func(i int) Val { return Val(i) }}
		}
		if str {
			return &SeqSys[string]{Kind: c, Cap: j.p("cap", 3), N: n, Poison: "POISON", U: strU(u)}
		}
		ss := &SeqSys[int]{Kind: c, Cap: j.p("cap", 3), N: n, Poison: -99, U: intU(u)}
		if j.p("jsonops", 0) == 1 {
			ss.JSONTexts = []string{`[]`, `null`, `[null]`, `[1,null]`, `[null,null,1]`}
		}
		return ss
	case "priorityqueue", "binaryheap":
		if deep { // one priority, every element with its own fresh identity: the state is (length, capacity)
			return hxSys(c, hc, n, 1, 0)
		}
		if str {
			return scalarHeapSys[string](c, hc, n, strU(u), "POISON", j.p("jsonlen", 2))
		}
		if j.s("elem", "") == "int" {
			return scalarHeapSys[int](c, hc, n, intU(u), -99, j.p("jsonlen", 2))
		}
		return heSysIDs(c, hc, n, j.p("pmax", 2), j.p("jsonlen", 2), j.p("ids", 2))
	case "hashmap", "treemap", "linkedhashmap", "hashbidimap", "treebidimap", "rbt", "avl", "btree":
		if deep && c == "linkedhashmap" {
			return &KVSys[Val, Val]{Kind: c, CmpN: "nat", N: n, Pos: true, Fresh: func(i int) Val { return Val(i) },
				KCmp: func(a, b Val) int { return int(a - b) }, VCmp: func(a, b Val) int { return int(a - b) }, PropsL: kvProps}
		}
		if str {
			ku := strU(u)
			// values drawn from the key alphabet ("values that contain text equal to keys")
			return &KVSys[string, string]{Kind: c, Order: j.p("m", 3), CmpN: cmpN, VCmpN: j.s("vcmp", "nat"), N: j.p("n", u), KU: ku, VU: strU(j.p("vu", u)),
				KCmp: strCmp(cmpN), VCmp: strCmp(j.s("vcmp", "nat")), PropsL: kvProps,
				Probes: func(live []string) []string { return []string{"", "zz"} }}
		}
		jj := j
		jj.S = map[string]string{"c": c, "cmp": cmpN, "vcmp": j.s("vcmp", "nat"), "ctor": j.s("ctor", ""), "elem": j.s("elem", "")}
		return kvSysFromJob(jj)
	}
	panic("makeSys: unknown container " + c)
}

// pureSys: the same system with pure (non-counting) comparators.
func pureSys(s Sys) Sys {
	if x, ok := s.(interface{ setNoCount() }); ok {
		x.setNoCount()
	}
	return s
}

func sysLabel(c string, j Job) string {
	l := c
	if c == "btree" {
		l += fmt.Sprintf("%d", j.p("m", 3))
	}
	if c == "circularbuffer" {
		l += fmt.Sprintf("%d", j.p("cap", 3))
	}
	return l
}

func init() {
	generic := func(j Job) (s Sys) {
		defer func() {
			if recover() != nil {
				s = nil
			}
		}()
		return makeSys(j.s("c", ""), j)
	}
	for _, k := range []string{"iter", "snap", "c15", "json11", "json12", "pure", "race", "enum", "anysys", "rewound", "largereaders", "largestates"} {
		sysForJob[k] = generic
	}
	sysForJob["kv"] = func(j Job) Sys { return kvSysFromJob(j) }
	sysForJob["list"] = func(j Job) Sys {
		if j.p("deep", 0) == 1 {
			return makeSys(j.s("c", ""), j)
		}
		return intListSys(j.s("c", ""), j.p("n", 6), j.p("u", 3))
	}
	sysForJob["set"] = func(j Job) Sys { return intSetSys(j.s("c", ""), j.s("cmp", "nat"), j.p("u", 4)) }
	sysForJob["seq"] = generic
	sysForJob["heap"] = func(j Job) Sys {
		s := heSysIDs(j.s("c", ""), j.s("cmp", "min"), j.p("n", 5), j.p("pmax", 3), j.p("jsonlen", 3), j.p("ids", 2))
		s.Skew = j.p("skew", 0)
		if s.Skew == 0 && j.p("ids", 2) == 2 {
			s.JSONTexts = []string{`[null]`, `[null,{"P":1,"ID":1}]`, `[{"P":1},null,{"ID":1}]`, `[{"ID":1},{"P":2}]`}
		}
		return s
	}
	// the two documented constructor preconditions are asserted to BE panics (C17 excludes them)
	jobKinds["ctorpanic"] = func(j Job, r *JobResult) {
		panics := func(f func()) (p bool) {
			defer func() { p = recover() != nil }()
			f()
			return
		}
		cases := map[string]func(){
			"circularbuffer.New(0)":  func() { circularbuffer.New[int](0) },
			"circularbuffer.New(-1)": func() { circularbuffer.New[int](-1) },
			"btree.NewWith(2)":       func() { btree.NewWith[int, int](2, intCmp("nat")) },
			"btree.New(0)":           func() { btree.New[int, int](0) },
		}
		r.St = Stats{States: 1, Transitions: len(cases), Exhaustive: true, Nested: map[string]int{}, PerSize: map[int]int{}}
		for name, f := range cases {
			if panics(f) {
				r.St.Nested["documented_constructor_panics_confirmed"]++
			} else {
				r.Notes = append(r.Notes, name+" did not panic (documented precondition no longer enforced; not a C17 violation)")
			}
		}
		// the smallest legal configurations work
		circularbuffer.New[int](1).Enqueue(1)
		btree.New[int, int](3).Put(1, 1)
		r.St.Samples = []any{"circularbuffer.New(0) panics; btree.NewWith(2, cmp) panics; New(1) / New(3) do not"}
	}
	// C08: for every reachable container state, the complete state graph of a fresh iterator
	jobKinds["iter"] = func(j Job, r *JobResult) {
		s := makeSys(j.s("c", ""), j)
		fullN := j.p("fullpred", 4)
		exploreJob(j, r, s, func(e *Explorer) {
			e.NoState = true
			e.OnState = func(path []Op, build func() Inst, st *Stats) *Viol {
				b := build().(Box)
				if b.NewIter() == nil {
					return nil
				}
				before, ids := CanonIDs(b.Opts(), b.Obj())
				seq := b.ExpSeq()
				v := iterGraphCheck(b.NewIter, ids, seq, b.Opts(), fullN, tag("C08"), st)
				if v != nil {
					return v
				}
				if after, _ := CanonIDs(b.Opts(), b.Obj()); after != before {
					return viol(tag("C08", "C18"), "invariant", "iterating changed the container: %s -> %s", clip(before, 300), clip(after, 300))
				}
				st.Nested[fmt.Sprintf("container_states_n%d", len(seq))]++
				return nil
			}
		})
	}
}
