package main

import "fmt"

// all21 lists every container kind.
var all21 = []string{
	"arraylist", "singlylinkedlist", "doublylinkedlist",
	"hashset", "treeset", "linkedhashset",
	"arraystack", "linkedliststack",
	"arrayqueue", "linkedlistqueue", "circularbuffer", "priorityqueue",
	"hashmap", "treemap", "linkedhashmap", "hashbidimap", "treebidimap",
	"rbt", "avl", "btree", "binaryheap",
}

// makeSys builds the system of container kind c with int elements.
//   n    live bound          u    universe size     cmp/vcmp comparator names
//   cap  ring capacity       m    B-tree order      rank=1 rank-abstract keys (trees)
func makeSys(c string, j Job) Sys {
	n, u := j.p("n", 4), j.p("u", 3)
	cmpN := j.s("cmp", "nat")
	switch c {
	case "arraylist", "singlylinkedlist", "doublylinkedlist":
		return intListSys(c, n, u)
	case "hashset", "linkedhashset":
		return intSetSys(c, cmpN, u)
	case "treeset":
		if j.p("rank", 0) == 1 {
			jj := j
			jj.S = map[string]string{"c": c, "cmp": cmpN}
			return kvSysFromJob(jj)
		}
		return intSetSys(c, cmpN, u)
	case "arraystack", "linkedliststack", "arrayqueue", "linkedlistqueue", "circularbuffer":
		s := &SeqSys[int]{Kind: c, Cap: j.p("cap", 3), N: n, Poison: -99, U: intRange(1, u)}
		return s
	case "priorityqueue", "binaryheap":
		hc := "min"
		if cmpN == "rev" {
			hc = "max"
		}
		return heSys(c, hc, n, j.p("pmax", 2), j.p("jsonlen", 2))
	case "hashmap", "treemap", "linkedhashmap", "hashbidimap", "treebidimap", "rbt", "avl", "btree":
		jj := j
		jj.S = map[string]string{"c": c, "cmp": cmpN, "vcmp": j.s("vcmp", "nat")}
		return kvSysFromJob(jj)
	}
	panic("makeSys: unknown container " + c)
}

func sysLabel(c string, j Job) string {
	l := c
	if c == "btree" {
		l += fmt.Sprintf("%d", j.p("m", 3))
	}
	if c == "circularbuffer" {
		l += fmt.Sprintf("%d", j.p("cap", 3))
	}
	return l
}

func init() {
	// C08: for every reachable container state, the complete state graph of a fresh iterator
	jobKinds["iter"] = func(j Job, r *JobResult) {
		s := makeSys(j.s("c", ""), j)
		fullN := j.p("fullpred", 4)
		exploreJob(j, r, s, func(e *Explorer) {
			e.NoState = true
			e.OnState = func(path []Op, build func() Inst, st *Stats) *Viol {
				b := build().(Box)
				if b.NewIter() == nil {
					return nil
				}
				before := Canon(b.Opts(), b.Obj())
				seq := b.ExpSeq()
				v := iterGraphCheck(b.NewIter, seq, b.Opts(), fullN, tag("C08"), st)
				if v != nil {
					return v
				}
				if after := Canon(b.Opts(), b.Obj()); after != before {
					return viol(tag("C08", "C18"), "invariant", "iterating changed the container: %s -> %s", clip(before, 300), clip(after, 300))
				}
				st.Nested[fmt.Sprintf("container_states_n%d", len(seq))]++
				return nil
			}
		})
	}
}
