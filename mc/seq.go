package main

// Stacks, queues and the circular buffer against a slice reference (C05).

import (
	"encoding/json"
	"fmt"
	"strings"

	"github.com/emirpasic/gods/v2/queues/arrayqueue"
	"github.com/emirpasic/gods/v2/queues/circularbuffer"
	"github.com/emirpasic/gods/v2/queues/linkedlistqueue"
	"github.com/emirpasic/gods/v2/stacks/arraystack"
	"github.com/emirpasic/gods/v2/stacks/linkedliststack"
)

type seqAPI[T comparable] struct {
	obj    any
	name   string // String() prefix
	lifo   bool
	capa   int // >0: ring of that capacity
	push   func(T)
	pop    func() (T, bool)
	peek   func() (T, bool)
	size   func() int
	empty  func() bool
	full   func() bool
	clear  func()
	values func() []T
	str    func() string
	iter   func() *IterDyn
	pushN  string
	popN   string
}

type SeqSys[T comparable] struct {
	Kind   string // arraystack | linkedliststack | arrayqueue | linkedlistqueue | circularbuffer
	Cap    int    // ring capacity
	U      []T
	Poison T
	N      int // live-size bound
	// Deep mode: every pushed value is fresh (Gen(counter)), of a type the fingerprint drops.
	Gen func(i int) T
	// JSONs: arrays (universe indices, in ToJSON order) offered as FromJSON operations, so that the
	// search also starts from loaded states (a second way to fill the container)
	JSONs [][]int
	// JSONTexts: raw inputs (null entries) whose denotation is fixed by decoding into a fresh slice
	JSONTexts []string
	Label     string
}

func (s *SeqSys[T]) Name() string {
	n := s.Kind
	if s.Kind == "circularbuffer" {
		n = fmt.Sprintf("%s(cap=%d)", s.Kind, s.Cap)
	}
	if s.Gen != nil {
		n += "/deep"
	}
	n += s.Label
	return n
}
func (s *SeqSys[T]) Props() []string { return []string{"C05", "C15"} }

func (s *SeqSys[T]) api() *seqAPI[T] {
	switch s.Kind {
	case "arraystack":
		c := arraystack.New[T]()
		return &seqAPI[T]{obj: c, name: "ArrayStack", lifo: true, push: c.Push, pop: c.Pop, peek: c.Peek, size: c.Size,
			empty: c.Empty, clear: c.Clear, values: c.Values, str: c.String, pushN: "Push", popN: "Pop",
			iter: func() *IterDyn { return idxIterRev[T](c.Iterator()) }}
	case "linkedliststack":
		c := linkedliststack.New[T]()
		return &seqAPI[T]{obj: c, name: "LinkedListStack", lifo: true, push: c.Push, pop: c.Pop, peek: c.Peek, size: c.Size,
			empty: c.Empty, clear: c.Clear, values: c.Values, str: c.String, pushN: "Push", popN: "Pop",
			iter: func() *IterDyn { return idxIterFwd[T](c.Iterator()) }}
	case "arrayqueue":
		c := arrayqueue.New[T]()
		return &seqAPI[T]{obj: c, name: "ArrayQueue", push: c.Enqueue, pop: c.Dequeue, peek: c.Peek, size: c.Size,
			empty: c.Empty, clear: c.Clear, values: c.Values, str: c.String, pushN: "Enqueue", popN: "Dequeue",
			iter: func() *IterDyn { return idxIterRev[T](c.Iterator()) }}
	case "linkedlistqueue":
		c := linkedlistqueue.New[T]()
		return &seqAPI[T]{obj: c, name: "LinkedListQueue", push: c.Enqueue, pop: c.Dequeue, peek: c.Peek, size: c.Size,
			empty: c.Empty, clear: c.Clear, values: c.Values, str: c.String, pushN: "Enqueue", popN: "Dequeue",
			iter: func() *IterDyn { return idxIterFwd[T](c.Iterator()) }}
	case "circularbuffer":
		c := circularbuffer.New[T](s.Cap)
		return &seqAPI[T]{obj: c, name: "CircularBuffer", capa: s.Cap, push: c.Enqueue, pop: c.Dequeue, peek: c.Peek, size: c.Size,
			empty: c.Empty, full: c.Full, clear: c.Clear, values: c.Values, str: c.String, pushN: "Enqueue", popN: "Dequeue",
			iter: func() *IterDyn { return idxIterRev[T](c.Iterator()) }}
	}
	panic("seq kind " + s.Kind)
}

type seqBox[T comparable] struct {
	sys  *SeqSys[T]
	a    *seqAPI[T]
	ref  []T // in removal order
	next int
}

func (b *seqBox[T]) pushVal(u int) T {
	if b.sys.Gen != nil {
		return b.sys.Gen(b.next + 1)
	}
	return b.sys.U[u]
}

func (s *SeqSys[T]) New() Inst { return s.newBox() }
func (s *SeqSys[T]) newBox() *seqBox[T] {
	return &seqBox[T]{sys: s, a: s.api()}
}

func (b *seqBox[T]) Ops() []Op {
	var ops []Op
	if b.a.capa > 0 || len(b.ref) < b.sys.N {
		if b.sys.Gen != nil {
			ops = append(ops, op("push", 0))
		} else {
			for i := range b.sys.U {
				ops = append(ops, op("push", i))
			}
		}
	}
	ops = append(ops, op("pop"), op("peek"), op("clear"))
	for ji, t := range b.sys.JSONs {
		if b.a.capa > 0 || len(t) <= b.sys.N {
			ops = append(ops, op("fromjson", ji))
		}
	}
	for ti := range b.sys.JSONTexts {
		ops = append(ops, op("fromjsontext", ti))
	}
	return ops
}

func (b *seqBox[T]) jsonText(ji int) []byte {
	vs := make([]T, 0, len(b.sys.JSONs[ji]))
	for _, u := range b.sys.JSONs[ji] {
		vs = append(vs, b.sys.U[u])
	}
	d, _ := json.Marshal(vs)
	return d
}

func (b *seqBox[T]) Describe(o Op) string {
	switch o.N {
	case "push":
		return fmt.Sprintf("%s(%v)", b.a.pushN, b.pushVal(o.A[0]))
	case "pop":
		return b.a.popN + "()"
	case "peek":
		return "Peek()"
	case "clear":
		return "Clear()"
	}
	return o.String()
}

func (b *seqBox[T]) Size() int   { return len(b.ref) }
func (b *seqBox[T]) Key() string { return Canon(CanonOpts{}, b.a.obj) }
func (b *seqBox[T]) Obs() string { return fmtVals(b.ref) }

// Step = Do (the operation on the real object and the reference, return values compared)
// followed by Content (the cheap observer comparison that runs on every transition).
func (b *seqBox[T]) Step(o Op) *Viol {
	if v := b.Do(o); v != nil {
		return v
	}
	return b.content()
}

func (b *seqBox[T]) Content() *Viol { return b.content() }

func (b *seqBox[T]) Do(o Op) *Viol {
	p := tag("C05")
	var zero T
	switch o.N {
	case "push":
		v := b.pushVal(o.A[0])
		b.next++
		b.a.push(v)
		if b.a.lifo {
			b.ref = append([]T{v}, b.ref...)
		} else {
			b.ref = append(append([]T{}, b.ref...), v)
			if b.a.capa > 0 && len(b.ref) > b.a.capa {
				b.ref = b.ref[1:]
			}
		}
	case "pop":
		got, ok := b.a.pop()
		if len(b.ref) == 0 {
			if ok || got != zero {
				return viol(p, "mismatch", "%s on empty container returned (%v, %v), want (zero, false)", b.a.popN, got, ok)
			}
		} else {
			if !ok || got != b.ref[0] {
				return viol(p, "mismatch", "%s returned (%v, %v), reference says (%v, true); reference content %v", b.a.popN, got, ok, b.ref[0], b.ref)
			}
			b.ref = append([]T{}, b.ref[1:]...)
		}
	case "peek":
		before := b.Key()
		got, ok := b.a.peek()
		if len(b.ref) == 0 {
			if ok || got != zero {
				return viol(p, "mismatch", "Peek on empty container returned (%v, %v), want (zero, false)", got, ok)
			}
		} else if !ok || got != b.ref[0] {
			return viol(p, "mismatch", "Peek returned (%v, %v), reference says (%v, true)", got, ok, b.ref[0])
		}
		if after := b.Key(); after != before {
			return viol(tag("C05", "C15", "C18"), "invariant", "Peek changed the container: %s -> %s", clip(before, 300), clip(after, 300))
		}
	case "clear":
		b.a.clear()
		b.ref = nil
	case "fromjson", "fromjsontext":
		data := []byte(nil)
		if o.N == "fromjson" {
			data = b.jsonText(o.A[0])
		} else {
			data = []byte(b.sys.JSONTexts[o.A[0]])
		}
		if err := b.a.obj.(interface{ FromJSON([]byte) error }).FromJSON(data); err != nil {
			return viol(tag("C05", "C12"), "mismatch", "FromJSON(%s) failed: %v", data, err)
		}
		if !b.LoadRef(data) {
			panic("tool error: reference cannot decode its own array " + string(data))
		}
	default:
		panic("seq op " + o.N)
	}
	return nil
}

// content: the cheap comparison run on every transition.
func (b *seqBox[T]) content() *Viol {
	if got := b.a.values(); !eqSlice(got, b.ref) {
		return viol(tag("C05"), "mismatch", "Values() = %v, reference (removal order) = %v", got, b.ref)
	}
	if got := b.a.size(); got != len(b.ref) {
		return viol(tag("C05", "C15"), "mismatch", "Size() = %d, reference has %d", got, len(b.ref))
	}
	return nil
}

func (b *seqBox[T]) CheckState() *Viol {
	if v := b.content(); v != nil {
		return v
	}
	n := len(b.ref)
	if e := b.a.empty(); e != (n == 0) {
		return viol(tag("C05", "C15"), "invariant", "Empty() = %v with Size() = %d", e, n)
	}
	if l := len(b.a.values()); l != b.a.size() {
		return viol(tag("C15"), "invariant", "len(Values()) = %d but Size() = %d", l, b.a.size())
	}
	if b.a.full != nil {
		if f := b.a.full(); f != (n == b.a.capa) {
			return viol(tag("C05"), "invariant", "Full() = %v with Size() = %d, capacity %d", f, n, b.a.capa)
		}
	}
	if s := b.a.str(); !strings.HasPrefix(s, b.a.name) {
		return viol(tag("C15"), "invariant", "String() = %q does not begin with %q", s, b.a.name)
	}
	// observers are pure
	return pureAll(CanonOpts{}, b.a.obj, b.Readers(), tag("C05"))
}

// ---- Box -----------------------------------------------------------------------

func (b *seqBox[T]) Obj() any          { return b.a.obj }
func (b *seqBox[T]) Opts() CanonOpts   { return CanonOpts{} }
func (b *seqBox[T]) NewIter() *IterDyn { return b.a.iter() }
func (b *seqBox[T]) ExpSeq() []Pair {
	s := make([]Pair, len(b.ref))
	for i, v := range b.ref {
		s[i] = Pair{i, v}
	}
	return s
}
func (b *seqBox[T]) Readers() []Reader {
	rs := []Reader{
		{"Peek", func() string { v, ok := b.a.peek(); return fmt.Sprint(v, ok) }},
		{"Size", func() string { return fmt.Sprint(b.a.size()) }},
		{"Empty", func() string { return fmt.Sprint(b.a.empty()) }},
		{"Values", func() string { return fmtVals(b.a.values()) }},
		{"String", func() string { return b.a.str() }},
		{"ToJSON", func() string { return toJSONString(b.a.obj) }},
		{"Iterate", func() string { return iterateAll(b.a.iter()) }},
	}
	if b.a.full != nil {
		rs = append(rs, Reader{"Full", func() string { return fmt.Sprint(b.a.full()) }})
	}
	return rs
}
func (b *seqBox[T]) Fresh() Box {
	nb := b.sys.newBox()
	nb.next = b.next // deep mode: the fresh-value counter continues
	return nb
}
func (b *seqBox[T]) JSONKind() string      { return "array" }
func (b *seqBox[T]) Unordered() bool       { return false }
func (b *seqBox[T]) ContainerName() string { return b.a.name }
func (b *seqBox[T]) Slices() []SliceObs {
	return []SliceObs{{"Values", func() any { return b.a.values() }}}
}
func (b *seqBox[T]) Observe() string {
	return fmt.Sprintf("size=%d empty=%v values=%v iter=%s", b.a.size(), b.a.empty(), b.a.values(), iterateAll(b.a.iter()))
}

// LoadRef: a JSON array in the container's Values()/ToJSON order.  Stacks
// serialise top-first?  No: the library serialises stacks bottom-first for the
// array stack (its list order) and top-first for the linked stack (its list
// order); what is required (C11) is only that the round trip reproduces the
// container, so the reference adopts "the array is in ToJSON order" per kind.
func (b *seqBox[T]) LoadRef(data []byte) bool {
	var vs []T
	if err := json.Unmarshal(data, &vs); err != nil {
		return false
	}
	ref := append([]T{}, vs...)
	if b.sys.Kind == "arraystack" {
		// the array stack writes its backing list: bottom of the stack first
		for l, r := 0, len(ref)-1; l < r; l, r = l+1, r-1 {
			ref[l], ref[r] = ref[r], ref[l]
		}
	}
	if b.a.capa > 0 && len(ref) > b.a.capa {
		ref = ref[len(ref)-b.a.capa:]
	}
	b.ref = ref
	return true
}

// ---- shared helpers -----------------------------------------------------------

func toJSONString(obj any) string {
	type tj interface{ ToJSON() ([]byte, error) }
	if j, ok := obj.(tj); ok {
		b, err := j.ToJSON()
		return fmt.Sprintf("%s %v", b, err)
	}
	return "no ToJSON"
}

// iterateAll: complete forward (and backward) iteration with a fresh iterator.
func iterateAll(it *IterDyn) string {
	if it == nil {
		return "-"
	}
	var sb strings.Builder
	for it.Next() {
		a, b := it.Cur()
		fmt.Fprintf(&sb, "(%v,%v)", a, b)
	}
	if it.Rev {
		sb.WriteString("|")
		for it.Prev() {
			a, b := it.Cur()
			fmt.Fprintf(&sb, "(%v,%v)", a, b)
		}
	}
	return sb.String()
}
