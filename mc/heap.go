package main

// BinaryHeap and PriorityQueue against a multiset reference (C06).

import (
	"encoding/json"
	"fmt"
	"strings"

	"github.com/emirpasic/gods/v2/queues/priorityqueue"
	"github.com/emirpasic/gods/v2/trees/binaryheap"
)

// HE is a heap element: the comparator looks at P only, so elements with equal
// P and different ID are distinguishable ties.
type HE struct {
	P  int
	ID int
}

// HX is a heap element whose identity is FRESH per push and of a type the fingerprint drops (the
// heap code can only see P through the comparator): with one priority the state is (length,
// capacity) only, every element is distinguishable from every other, and sizes of 40-70 are cheap.
type HX struct {
	P  int
	ID Rep
}

func (e HX) String() string { return fmt.Sprintf("%d#%d", e.P, int(e.ID)) }

func (e HE) String() string { return fmt.Sprintf("%d.%d", e.P, e.ID) }

type heapAPI[T comparable] struct {
	obj    any
	name   string
	push   func(...T) // heap: variadic; pq: single only (bulk = nil)
	bulk   bool
	pop    func() (T, bool)
	peek   func() (T, bool)
	size   func() int
	empty  func() bool
	clear  func()
	values func() []T
	str    func() string
	iter   func() *IterDyn
	from   func([]byte) error
	pushN  string
	popN   string
}

type HeapSys[T comparable] struct {
	Kind   string // binaryheap | priorityqueue
	CmpN   string // min | max
	U      []T
	Poison T
	Cmp    func(a, b T) int
	N      int
	Bulk   [][]int // bulk argument tuples (universe indices), heap only
	JSONs  [][]int // FromJSON arrays (universe indices)
	// JSONTexts: raw inputs (null entries, objects with omitted fields) whose denotation is fixed by
	// decoding them into a fresh []T
	JSONTexts []string
	// Custom overrides construction (default constructors New[T cmp.Ordered]()).
	Custom func(b *heapBox[T])
	Label  string
	// Skew > 0 (deep mode for large heaps): at most Skew elements that precede the comparator-greatest
	// universe element are alive at a time; single pushes and bulk patterns that would exceed it are
	// not offered.  The reachable arrays are "all greatest, a few small ones near the top", which keeps
	// the state space linear in the size while bulk pushes of small values onto a big heap — where the
	// heapify / sift bounds matter — stay in the alphabet.
	Skew int
	// FreshID (HX elements): gives the element pushed by the n-th push its own identity
	FreshID func(base T, n int) T
}

func (s *HeapSys[T]) Name() string    { return s.Kind + "/" + s.CmpN + s.Label }
func (s *HeapSys[T]) Props() []string { return []string{"C06", "C15", "C16"} }
func (s *HeapSys[T]) New() Inst       { return s.newBox() }
func (s *HeapSys[T]) newBox() *heapBox[T] {
	b := &heapBox[T]{sys: s}
	if s.Custom != nil {
		s.Custom(b)
		return b
	}
	switch s.Kind {
	case "binaryheap":
		b.a = wrapHeap(binaryheap.NewWith[T](s.Cmp))
	case "priorityqueue":
		b.a = wrapPQ(priorityqueue.NewWith[T](s.Cmp))
	default:
		panic("heap kind " + s.Kind)
	}
	return b
}

func wrapHeap[T comparable](c *binaryheap.Heap[T]) *heapAPI[T] {
	return &heapAPI[T]{obj: c, name: "BinaryHeap", push: c.Push, bulk: true, pop: c.Pop, peek: c.Peek, size: c.Size, empty: c.Empty,
		clear: c.Clear, values: c.Values, str: c.String, from: c.FromJSON, pushN: "Push", popN: "Pop",
		iter: func() *IterDyn { return idxIterRev[T](c.Iterator()) }}
}

func wrapPQ[T comparable](c *priorityqueue.Queue[T]) *heapAPI[T] {
	return &heapAPI[T]{obj: c, name: "PriorityQueue", push: func(v ...T) { c.Enqueue(v[0]) }, pop: c.Dequeue, peek: c.Peek, size: c.Size, empty: c.Empty,
		clear: c.Clear, values: c.Values, str: c.String, from: c.FromJSON, pushN: "Enqueue", popN: "Dequeue",
		iter: func() *IterDyn { return idxIterRev[T](c.Iterator()) }}
}

type heapBox[T comparable] struct {
	sys  *HeapSys[T]
	a    *heapAPI[T]
	ref  []T // multiset
	next int // fresh identities handed out so far
}

// elems resolves universe indices into elements (with fresh identities when the system asks for them)
func (b *heapBox[T]) elems(t []int) []T {
	vs := b.idxTuple(t)
	if b.sys.FreshID != nil {
		for i := range vs {
			vs[i] = b.sys.FreshID(vs[i], b.next+1+i)
		}
	}
	return vs
}

func (b *heapBox[T]) idxTuple(t []int) []T {
	vs := make([]T, len(t))
	for i, u := range t {
		vs[i] = b.sys.U[u]
	}
	return vs
}

// small counts the elements that strictly precede the comparator-greatest universe element
func (b *heapBox[T]) small(vs []T) int {
	mx := b.sys.U[0]
	for _, u := range b.sys.U {
		if b.sys.Cmp(u, mx) > 0 {
			mx = u
		}
	}
	n := 0
	for _, v := range vs {
		if b.sys.Cmp(v, mx) < 0 {
			n++
		}
	}
	return n
}

func (b *heapBox[T]) Ops() []Op {
	var ops []Op
	room := b.sys.N - len(b.ref)
	alive := 0
	if b.sys.Skew > 0 {
		alive = b.small(b.ref)
	}
	okSkew := func(vs []T) bool { return b.sys.Skew == 0 || alive+b.small(vs) <= b.sys.Skew }
	if room >= 1 {
		for i := range b.sys.U {
			if okSkew([]T{b.sys.U[i]}) {
				ops = append(ops, op("push", i))
			}
		}
	}
	if b.a.bulk {
		for ti, t := range b.sys.Bulk {
			if len(t) <= room && okSkew(b.idxTuple(t)) {
				ops = append(ops, op("bulk", ti))
			}
		}
	}
	ops = append(ops, op("pop"), op("peek"), op("clear"))
	for ji := range b.sys.JSONs {
		if b.sys.Skew > 0 && b.small(b.idxTuple(b.sys.JSONs[ji])) > b.sys.Skew {
			continue
		}
		ops = append(ops, op("fromjson", ji))
	}
	for ti := range b.sys.JSONTexts {
		ops = append(ops, op("fromjsontext", ti))
	}
	return ops
}

func (b *heapBox[T]) jsonText(ji int) []byte {
	vs := b.idxTuple(b.sys.JSONs[ji])
	d, _ := json.Marshal(vs)
	if len(vs) == 0 {
		d = []byte("[]")
	}
	return d
}

func (b *heapBox[T]) Describe(o Op) string {
	switch o.N {
	case "push":
		return fmt.Sprintf("%s(%v)", b.a.pushN, b.elems([]int{o.A[0]})[0])
	case "bulk":
		return fmt.Sprintf("Push(%v...)", b.elems(b.sys.Bulk[o.A[0]]))
	case "pop":
		return b.a.popN + "()"
	case "peek":
		return "Peek()"
	case "clear":
		return "Clear()"
	case "fromjson":
		return fmt.Sprintf("FromJSON(%s)", b.jsonText(o.A[0]))
	case "fromjsontext":
		return fmt.Sprintf("FromJSON(%s)", b.sys.JSONTexts[o.A[0]])
	}
	return o.String()
}

func (b *heapBox[T]) Size() int   { return len(b.ref) }
func (b *heapBox[T]) Key() string { return Canon(CanonOpts{}, b.a.obj) }
func (b *heapBox[T]) Obs() string { return strings.Join(sortedStrings(b.ref), " ") }

// minimal: no contained element precedes x
func (b *heapBox[T]) minimal(x T) (bool, T) {
	for _, y := range b.ref {
		if b.sys.Cmp(y, x) < 0 {
			return false, y
		}
	}
	var z T
	return true, z
}

func (b *heapBox[T]) removeExact(x T) bool {
	for i, y := range b.ref {
		if eqv(y, x) {
			b.ref = append(append([]T{}, b.ref[:i]...), b.ref[i+1:]...)
			return true
		}
	}
	return false
}

// Step = Do (the operation on the real object and the reference, return values compared)
// followed by Content (the cheap observer comparison that runs on every transition).
func (b *heapBox[T]) Step(o Op) *Viol {
	if v := b.Do(o); v != nil {
		return v
	}
	return b.content()
}

func (b *heapBox[T]) Content() *Viol { return b.content() }

func (b *heapBox[T]) Do(o Op) *Viol {
	p := tag("C06")
	var zero T
	switch o.N {
	case "push":
		v := b.elems([]int{o.A[0]})[0]
		b.next++
		arg := argSlice([]T{v})
		b.a.push(arg...)
		if v := scribbleCheck(arg, b.sys.Poison, b.a.values, b.a.name, o.N); v != nil {
			return v
		}
		b.ref = append(append([]T{}, b.ref...), v)
	case "bulk":
		vs := b.elems(b.sys.Bulk[o.A[0]])
		b.next += len(vs)
		arg := argSlice(vs)
		b.a.push(arg...)
		if v := scribbleCheck(arg, b.sys.Poison, b.a.values, b.a.name, o.N); v != nil {
			return v
		}
		b.ref = append(append([]T{}, b.ref...), vs...)
	case "pop":
		got, ok := b.a.pop()
		if len(b.ref) == 0 {
			if ok || got != zero {
				return viol(tag("C06", "C05"), "mismatch", "%s on empty container returned (%v, %v), want (zero, false)", b.a.popN, got, ok)
			}
		} else {
			if !ok {
				return viol(p, "mismatch", "%s returned ok=false with contents %v", b.a.popN, b.ref)
			}
			if m, y := b.minimal(got); !m {
				return viol(p, "mismatch", "%s returned %v although the contained element %v precedes it; contents %v", b.a.popN, got, y, b.ref)
			}
			if !b.removeExact(got) {
				return viol(p, "mismatch", "%s returned %v which is not among the contents %v (altered or invented element)", b.a.popN, got, b.ref)
			}
		}
	case "peek":
		before := b.Key()
		got, ok := b.a.peek()
		if len(b.ref) == 0 {
			if ok || got != zero {
				return viol(p, "mismatch", "Peek on empty container returned (%v, %v)", got, ok)
			}
		} else {
			if !ok {
				return viol(p, "mismatch", "Peek returned ok=false with contents %v", b.ref)
			}
			if m, y := b.minimal(got); !m {
				return viol(p, "mismatch", "Peek returned %v although the contained element %v precedes it; contents %v", got, y, b.ref)
			}
		}
		if after := b.Key(); after != before {
			return viol(tag("C06", "C15", "C18"), "invariant", "Peek changed the container")
		}
	case "clear":
		b.a.clear()
		b.ref = nil
	case "fromjson":
		data := b.jsonText(o.A[0])
		if err := b.a.from(data); err != nil {
			return viol(tag("C06", "C12"), "mismatch", "FromJSON(%s) failed: %v", data, err)
		}
		b.ref = b.idxTuple(b.sys.JSONs[o.A[0]])
	case "fromjsontext":
		data := []byte(b.sys.JSONTexts[o.A[0]])
		if err := b.a.from(data); err != nil {
			return viol(tag("C06", "C12"), "mismatch", "FromJSON(%s) failed: %v", data, err)
		}
		if !b.LoadRef(data) {
			panic("tool error: reference cannot decode " + string(data))
		}
	default:
		panic("heap op " + o.N)
	}
	return nil
}

func (b *heapBox[T]) content() *Viol {
	vals := b.a.values()
	if !sameMultiset(vals, b.ref) {
		return viol(tag("C06"), "mismatch", "Values() = %v is not a permutation of the contents %v (lost, duplicated or altered element)", vals, b.ref)
	}
	if got := b.a.size(); got != len(b.ref) {
		return viol(tag("C06", "C15"), "mismatch", "Size() = %d, contents have %d elements", got, len(b.ref))
	}
	return nil
}

func (b *heapBox[T]) CheckState() *Viol {
	if v := b.content(); v != nil {
		return v
	}
	n := len(b.ref)
	if e := b.a.empty(); e != (n == 0) {
		return viol(tag("C06", "C15"), "invariant", "Empty() = %v with %d elements", e, n)
	}
	if s := b.a.str(); !strings.HasPrefix(s, b.a.name) {
		return viol(tag("C15"), "invariant", "String() = %q does not begin with %q", s, b.a.name)
	}
	vals := b.a.values()
	if n > 0 {
		pk, ok := b.a.peek()
		if !ok {
			return viol(tag("C06"), "mismatch", "Peek returned ok=false with contents %v", b.ref)
		}
		if m, y := b.minimal(pk); !m {
			return viol(tag("C06"), "mismatch", "Peek returned %v although the contained element %v precedes it", pk, y)
		}
		if !eqv(vals[0], pk) {
			return viol(tag("C06"), "mismatch", "Values()[0] = %v but Peek() = %v", vals[0], pk)
		}
	}
	// a full iteration exposes the same permutation as Values()
	it := b.a.iter()
	i := 0
	for it.Next() {
		idx, v := it.Cur()
		if i >= n || idx.(int) != i || !eqv(v.(T), vals[i]) {
			return viol(tag("C06"), "mismatch", "iteration element #%d = (%v, %v), Values() = %v", i, idx, v, vals)
		}
		i++
	}
	if i != n {
		return viol(tag("C06"), "mismatch", "iteration yields %d elements, contents have %d", i, n)
	}
	return pureAll(CanonOpts{}, b.a.obj, b.Readers(), tag("C06"))
}

// drainSeq pops everything and renders the exact sequence (element identity included).
func (b *heapBox[T]) drainSeq() string {
	var seq []T
	for i := 0; i <= len(b.ref)+2; i++ {
		x, ok := b.a.pop()
		if !ok {
			break
		}
		seq = append(seq, x)
	}
	return fmtVals(seq)
}

// drain pops everything and checks the sequence (used by the C06 nested hook on a rebuilt copy).
func (b *heapBox[T]) drain() *Viol {
	var seq []T
	want := append([]T{}, b.ref...)
	for {
		x, ok := b.a.pop()
		if !ok {
			break
		}
		seq = append(seq, x)
		if len(seq) > len(want)+2 {
			return viol(tag("C06"), "mismatch", "drain does not end: %v from contents %v", seq, want)
		}
	}
	if !sameMultiset(seq, want) {
		return viol(tag("C06"), "mismatch", "drain %v is not a permutation of the contents %v", seq, want)
	}
	for i := 1; i < len(seq); i++ {
		if b.sys.Cmp(seq[i-1], seq[i]) > 0 {
			return viol(tag("C06"), "mismatch", "drain %v is not non-decreasing under the comparator", seq)
		}
	}
	if b.a.size() != 0 || !b.a.empty() {
		return viol(tag("C06", "C15"), "mismatch", "after draining, Size() = %d", b.a.size())
	}
	return nil
}

// ---- Box -----------------------------------------------------------------------

func (b *heapBox[T]) Obj() any          { return b.a.obj }
func (b *heapBox[T]) Opts() CanonOpts   { return CanonOpts{} }
func (b *heapBox[T]) NewIter() *IterDyn { return b.a.iter() }

// ExpSeq: the heap's iteration order is defined by its own Values() (a
// permutation of the multiset, checked above); C08 compares the iterator with it.
func (b *heapBox[T]) ExpSeq() []Pair {
	vals := b.a.values()
	s := make([]Pair, len(vals))
	for i, v := range vals {
		s[i] = Pair{i, v}
	}
	return s
}
func (b *heapBox[T]) Readers() []Reader {
	return []Reader{
		{"Peek", func() string { v, ok := b.a.peek(); return fmt.Sprint(v, ok) }},
		{"Size", func() string { return fmt.Sprint(b.a.size()) }},
		{"Empty", func() string { return fmt.Sprint(b.a.empty()) }},
		{"Values", func() string { return fmtVals(b.a.values()) }},
		{"String", func() string { return b.a.str() }},
		{"ToJSON", func() string { return toJSONString(b.a.obj) }},
		{"Iterate", func() string { return iterateAll(b.a.iter()) }},
	}
}
func (b *heapBox[T]) Fresh() Box {
	nb := b.sys.newBox()
	nb.next = b.next
	return nb
}
func (b *heapBox[T]) JSONKind() string      { return "array" }
func (b *heapBox[T]) Unordered() bool       { return false }
func (b *heapBox[T]) ContainerName() string { return b.a.name }
func (b *heapBox[T]) Slices() []SliceObs {
	return []SliceObs{{"Values", func() any { return b.a.values() }}}
}
func (b *heapBox[T]) Observe() string {
	return fmt.Sprintf("size=%d empty=%v values=%v iter=%s", b.a.size(), b.a.empty(), b.a.values(), iterateAll(b.a.iter()))
}
func (b *heapBox[T]) LoadRef(data []byte) bool {
	var vs []T
	if err := json.Unmarshal(data, &vs); err != nil {
		return false
	}
	b.ref = append([]T{}, vs...)
	return true
}

// ---- configuration ----------------------------------------------------------------

func heSys(kind, cmpN string, n, pmax int, jsonLen int) *HeapSys[HE] {
	return heSysIDs(kind, cmpN, n, pmax, jsonLen, 2)
}

// heSysIDs: ids = number of distinguishable elements per priority (1: no ties between
// distinguishable elements; used by the deep jobs that need many elements).
func heSysIDs(kind, cmpN string, n, pmax int, jsonLen int, ids int) *HeapSys[HE] {
	var u []HE
	for p := 1; p <= pmax; p++ {
		for id := 0; id < ids; id++ {
			u = append(u, HE{p - 1, id}) // priorities start at 0: {0,0} is the zero value
		}
	}
	if ids == 1 {
		cmp := func(a, b HE) int { return a.P - b.P }
		if cmpN == "max" {
			cmp = func(a, b HE) int { return (b.P - a.P) * 3 }
		}
		return genHeapSys(kind, cmpN, n, u, HE{-9, -9}, cmp, pmax, func(p, pos int) int { return p - 1 }, jsonLen)
	}
	cmp := func(a, b HE) int { return a.P - b.P }
	if cmpN == "max" {
		cmp = func(a, b HE) int { return (b.P - a.P) * 3 }
	}
	// element index for priority p at argument position pos: IDs alternate with the position
	return genHeapSys(kind, cmpN, n, u, HE{-9, -9}, cmp, pmax, func(p, pos int) int { return (p-1)*2 + pos%2 }, jsonLen)
}

// scalarHeapSys: heap over plain ordered scalars (JSON jobs).
func scalarHeapSys[T comparable](kind, cmpN string, n int, u []T, poison T, jsonLen int) *HeapSys[T] {
	cmp := func(a, b T) int { return anyCmp(a, b) }
	if cmpN == "max" {
		cmp = func(a, b T) int { return -anyCmp(a, b) }
	}
	return genHeapSys(kind, cmpN, n, u, poison, cmp, len(u), func(p, pos int) int { return p - 1 }, jsonLen)
}

func genHeapSys[T comparable](kind, cmpN string, n int, u []T, poison T, cmp func(a, b T) int, pmax int, ui func(p, pos int) int, jsonLen int) *HeapSys[T] {
	s := &HeapSys[T]{Kind: kind, CmpN: cmpN, N: n, Poison: poison, U: u, Cmp: cmp}
	// bulk: the empty call, every priority pattern of length 2 and 3
	s.Bulk = [][]int{{}}
	var gen func(cur []int, l int, out *[][]int)
	gen = func(cur []int, l int, out *[][]int) {
		if len(cur) == l {
			t := make([]int, l)
			for i, p := range cur {
				t[i] = ui(p, i)
			}
			*out = append(*out, t)
			return
		}
		for p := 1; p <= pmax; p++ {
			gen(append(cur, p), l, out)
		}
	}
	gen(nil, 2, &s.Bulk)
	gen(nil, 3, &s.Bulk)
	for l := 0; l <= jsonLen; l++ {
		if l <= n {
			gen(nil, l, &s.JSONs)
		}
	}
	return s
}

// hxSys: heaps of HX elements (fresh identities): pmax priorities, optional skew.
func hxSys(kind, cmpN string, n, pmax, skew int) *HeapSys[HX] {
	var u []HX
	for p := 0; p < pmax; p++ {
		u = append(u, HX{P: p})
	}
	cmp := func(a, b HX) int { return a.P - b.P }
	if cmpN == "max" {
		cmp = func(a, b HX) int { return (b.P - a.P) * 3 }
	}
	s := genHeapSys(kind, cmpN, n, u, HX{-9, -9}, cmp, pmax, func(p, pos int) int { return p - 1 }, 0)
	s.JSONs = nil
	s.Skew = skew
	s.FreshID = func(base HX, k int) HX { base.ID = Rep(k); return base }
	return s
}
