package main

// Nested enumerations (iterator graphs, enumerable functions) on LARGE comparator-ordered containers.
//
// The fixpoint searches reach every tree shape up to 8-13 keys; a defect that needs a taller tree (a
// path stack sized by log2(n), a level cache, a long spine) lies beyond them, and a fixpoint at 30-70
// keys is out of reach.  This job enumerates a FAMILY of histories exhaustively instead: every prefix
// (sizes 0..N) of each fill order in {ascending, descending, zig-zag from both ends, inside-out}, and
// for each of the larger states additionally the state after removing every second key; the states
// are deduplicated by fingerprint and each one gets the property's complete nested enumeration
// (iterator state graph / enumerable functions with the predicate and mapping families).  The
// evidence labels these jobs "family": exhaustive over the stated histories, not over all shapes.

import "fmt"

type fillOrder struct {
	name string
	keys []int
}

func fillOrders(u int) []fillOrder {
	asc := intRange(0, u-1)
	desc := make([]int, u)
	for i := range desc {
		desc[i] = u - 1 - i
	}
	var zig, inside []int
	for lo, hi := 0, u-1; lo <= hi; lo, hi = lo+1, hi-1 {
		zig = append(zig, lo)
		if hi != lo {
			zig = append(zig, hi)
		}
	}
	seen := map[int]bool{}
	for d := 0; len(inside) < u; d++ {
		for _, k := range []int{u/2 - d - 1, u/2 + d} {
			if k >= 0 && k < u && !seen[k] {
				seen[k] = true
				inside = append(inside, k)
			}
		}
	}
	orders := []fillOrder{{"ascending", asc}, {"descending", desc}, {"zig-zag", zig}, {"inside-out", inside}}
	// fixed "random-looking" permutations (shapes no monotone order produces): two stride
	// permutations k_i = (off + i*s) mod u with s coprime to u near 0.618 u and 0.382 u, and the
	// bit-reversal order (the insertion order of a perfectly balanced search tree, level by level mixed)
	if u >= 8 {
		orders = append(orders, fillOrder{"stride-golden", strideOrder(u, coprimeNear(u, u*618/1000), 0)},
			fillOrder{"stride-minor", strideOrder(u, coprimeNear(u, u*382/1000), u/3)},
			fillOrder{"bit-reversal", bitReversalOrder(u)})
	}
	return orders
}

func gcd(a, b int) int {
	for b != 0 {
		a, b = b, a%b
	}
	return a
}

func coprimeNear(u, s int) int {
	if s < 2 {
		s = 2
	}
	for gcd(u, s) != 1 {
		s++
	}
	return s
}

func strideOrder(u, s, off int) []int {
	o := make([]int, u)
	for i := range o {
		o[i] = (off + i*s) % u
	}
	return o
}

func bitReversalOrder(u int) []int {
	bits := 0
	for 1<<bits < u {
		bits++
	}
	var o []int
	for i := 0; i < 1<<bits; i++ {
		r := 0
		for b := 0; b < bits; b++ {
			if i&(1<<b) != 0 {
				r |= 1 << (bits - 1 - b)
			}
		}
		if r < u {
			o = append(o, r)
		}
	}
	return o
}

func familyJob(j Job, r *JobResult) {
	c, u := j.s("c", ""), j.p("u", 40)
	check := j.s("check", "iter")
	var sys Sys
	var put, del func(k int) Op
	switch c {
	case "treeset", "linkedhashset":
		s := intSetSys(c, j.s("cmp", "nat"), u)
		s.Tuples = nil
		for i := 0; i < u; i++ {
			s.Tuples = append(s.Tuples, []int{i})
		}
		sys = s
		put = func(k int) Op { return op("Add", k) }
		del = func(k int) Op { return op("Remove", k) }
	default:
		jj := j
		jj.P = map[string]int{"u": u, "n": u, "vu": u, "m": j.p("m", 3)}
		sys = kvSysFromJob(jj)
		two := false
		for _, o := range sys.New().Ops() {
			if o.N == "put" && len(o.A) == 2 {
				two = true
			}
		}
		put = func(k int) Op {
			if two {
				return op("put", k, (k+u/3)%u)
			}
			return op("put", k)
		}
		del = func(k int) Op { return op("del", k) }
	}
	if j.Prop == "C18" {
		sys = pureSys(sys)
	}
	maxAll, maxFns, fullN := j.p("maxn", 4), j.p("maxfns", 100000), j.p("fullpred", 3)
	r.St = Stats{Nested: map[string]int{}, PerSize: map[int]int{}, OpsHistogram: map[string]int{}, Exhaustive: true}
	seen := map[[16]byte]bool{}
	nested := func(build func() Inst, st *Stats) *Viol {
		switch check {
		case "enum":
			en, ok := build().(enumerable)
			if !ok {
				return nil
			}
			ad := en.enumAdapter()
			if ad == nil {
				return nil
			}
			st.Nested["enum_states"]++
			ad.followCap = 16
			return enumCheck(ad, maxAll, maxFns, st)
		default:
			b := build().(Box)
			if b.NewIter() == nil {
				return nil
			}
			before, ids := CanonIDs(b.Opts(), b.Obj())
			if v := iterGraphCheck(b.NewIter, ids, b.ExpSeq(), b.Opts(), fullN, tag("C08"), st); v != nil {
				return v
			}
			if after, _ := CanonIDs(b.Opts(), b.Obj()); after != before {
				return viol(tag("C08", "C18"), "invariant", "iterating changed the container: %s -> %s", clip(before, 300), clip(after, 300))
			}
			return nil
		}
	}
	run := func(path []Op, what string) bool {
		inflightSeq.Add(1)
		build := func() Inst {
			in := sys.New()
			for _, o := range path {
				if v := safeStep(in, o, nil); v != nil && v.Class == "panic" {
					panic("tool error: family prefix panics: " + v.Msg) // reported by the history jobs of C01/C04
				}
			}
			return in
		}
		var v *Viol
		var fresh bool
		v = safeCheck(func() *Viol {
			in := build()
			h := hash16(in.Key())
			if seen[h] {
				return nil
			}
			seen[h], fresh = true, true
			return nil
		}, nil, "family prefix")
		if v == nil && fresh {
			r.St.States++
			r.St.PerSize[len(path)]++
			v = safeCheck(func() *Viol { return nested(build, &r.St) }, []string{j.Prop}, "nested enumeration")
			if v == nil && j.Prop == "C17" {
				v = outGuardCheck("nested enumeration")
			}
		}
		r.St.Transitions++
		if v != nil && v.Has(j.Prop) {
			v.Msg = what + ": " + v.Msg
			r.Found = &Found{V: v, Path: path, Calls: describePath(sys, path, nil), Nested: "nested enumeration on this state"}
			r.St.Exhaustive = false
			return true
		}
		return false
	}
	if j.Replay != nil {
		run(j.Replay.Path, "replayed history")
		return
	}
	for _, fo := range fillOrders(u) {
		name, ord := fo.name, fo.keys
		var path []Op
		for n := 0; n <= u; n++ {
			if n > 0 {
				path = append(path, put(ord[n-1]))
			}
			if run(append([]Op{}, path...), fmt.Sprintf("%d keys inserted %s", n, name)) {
				return
			}
			if n >= 8 && n%4 == 0 {
				// thinned out: every second inserted key removed again (rebalancing from the other side)
				p2 := append([]Op{}, path...)
				for i := 0; i < n; i += 2 {
					p2 = append(p2, del(ord[i]))
				}
				if run(p2, fmt.Sprintf("%d keys inserted %s, then every second one removed", n, name)) {
					return
				}
			}
		}
		r.St.Nested["history_families"]++
	}
	r.St.Samples = []any{map[string]any{"system": sys.Name(), "check": check, "family": "every prefix (sizes 0..N) of the fill orders {ascending, descending, zig-zag, inside-out, stride-golden, stride-minor, bit-reversal}, plus every second key removed again at sizes 8, 12, ..", "N": u}}
}

func init() { jobKinds["family"] = familyJob }

// ---- churn families: large comparator trees under NON-MONOTONE histories ------------------------
//
// The fixpoint searches of C01/C02/C07 reach every shape up to 12-24 keys.  This job takes the
// containers to u keys (48/96) along a stated family of histories that are not plain fills:
//
//	fill in order F, then delete in order D down to empty;                       F in 4 orders, D in 5
//	fill in order F, delete half in order D, re-insert the deleted keys in order R,
//	  then delete everything in order D;                                          R in {ascending, descending}
//
// Every single step runs the transition oracle (returned values, Size/Keys/Values against the
// reference, comparator-call bounds) and the complete state oracle (shape invariants, Get and
// navigation for all 2n+1 probes, iteration both ways).  Exhaustive over the stated family only.
func churnJob(j Job, r *JobResult) {
	u := j.p("u", 48)
	jj := j
	jj.P = map[string]int{"u": u, "n": u, "vu": u, "m": j.p("m", 3)}
	sys := kvSysFromJob(jj)
	if ks, ok := sys.(*KVSys[int, Val]); ok && ks.Kind == "treeset" {
		ks.Fresh = func(i int) Val { return 0 }
	}
	two := false
	for _, o := range sys.New().Ops() {
		if o.N == "put" && len(o.A) == 2 {
			two = true
		}
	}
	put := func(k int) Op {
		if two {
			return op("put", k, (k*7+3)%u)
		}
		return op("put", k)
	}
	del := func(k int) Op { return op("del", k) }
	r.St = Stats{Nested: map[string]int{}, PerSize: map[int]int{}, OpsHistogram: map[string]int{}, Exhaustive: true}
	seen := map[[16]byte]bool{}
	run := func(path []Op, what string) bool {
		inflightSeq.Add(1)
		in := sys.New()
		for i, o := range path {
			desc := in.Describe(o)
			v := safeStep(in, o, sys.Props())
			r.St.Transitions++
			r.St.OpsHistogram[o.N]++
			if v == nil {
				var k string
				if kv := safeCheck(func() *Viol { k = in.Key(); return nil }, nil, "fingerprint"); kv == nil {
					if h := hash16(k); !seen[h] {
						seen[h] = true
						r.St.States++
						r.St.PerSize[in.Size()]++
						v = safeCheck(in.CheckState, sys.Props(), "state observers")
					}
				}
			}
			if v == nil && j.Prop == "C17" {
				v = outGuardCheck("churn history")
			}
			if v != nil {
				if !v.Has(j.Prop) {
					if v.Class == "panic" {
						return false // a panic in the middle of a history: reported by the property that owns it
					}
					continue
				}
				v.Msg = fmt.Sprintf("%s, step %d %s: %s", what, i, desc, v.Msg)
				r.Found = &Found{V: v, Path: path[:i+1], Calls: describePath(sys, path[:i+1], nil)}
				r.St.Exhaustive = false
				return true
			}
		}
		r.St.Nested["churn_histories"]++
		return false
	}
	if j.Replay != nil {
		run(j.Replay.Path, "replayed history")
		return
	}
	fills := fillOrders(u)
	dels := append(fillOrders(u), fillOrder{"every second key first, then the rest", func() []int {
		var o []int
		for i := 0; i < u; i += 2 {
			o = append(o, i)
		}
		for i := 1; i < u; i += 2 {
			o = append(o, i)
		}
		return o
	}()})
	for _, f := range fills {
		for _, d := range dels {
			var p []Op
			for _, k := range f.keys {
				p = append(p, put(k))
			}
			half := append([]Op{}, p...)
			for _, k := range d.keys {
				p = append(p, del(k))
			}
			if run(p, fmt.Sprintf("%d keys inserted %s, deleted %s", u, f.name, d.name)) {
				return
			}
			{
				// sawtooth: while filling, every third Put is followed by the removal of the key put two steps
				// earlier; the removed keys are re-inserted (same places) after the fill; then all deleted
				var q []Op
				var gone []int
				for i, k := range f.keys {
					q = append(q, put(k))
					if i%3 == 2 {
						q = append(q, del(f.keys[i-2]))
						gone = append(gone, f.keys[i-2])
					}
				}
				for _, k := range gone {
					q = append(q, put(k))
				}
				for _, k := range d.keys {
					q = append(q, del(k))
				}
				if run(q, fmt.Sprintf("%d keys inserted %s with a Remove after every third Put, removed keys re-inserted, all deleted %s", u, f.name, d.name)) {
					return
				}
			}
			for _, re := range fills[:2] {
				q := append([]Op{}, half...)
				gone := map[int]bool{}
				for _, k := range d.keys[:u/2] {
					q = append(q, del(k))
					gone[k] = true
				}
				for _, k := range re.keys {
					if gone[k] {
						q = append(q, put(k))
					}
				}
				for _, k := range d.keys {
					q = append(q, del(k))
				}
				if run(q, fmt.Sprintf("%d keys inserted %s, half deleted %s, re-inserted %s, all deleted %s", u, f.name, d.name, re.name, d.name)) {
					return
				}
			}
		}
	}
	// sliding windows: w keys alive, the window moves across the whole universe one key at a time — upwards
	// (insert the next greater key, remove the least) and downwards, inserting first or removing first; the
	// tree keeps its size while every key is inserted and removed once (a queue-like use of an ordered map)
	for _, w := range []int{3, 8, 17, 33} {
		if w >= u {
			continue
		}
		for _, dir := range []string{"upwards", "downwards"} {
			for _, first := range []string{"Put first", "Remove first"} {
				key := func(i int) int {
					if dir == "downwards" {
						return u - 1 - i
					}
					return i
				}
				var q []Op
				for i := 0; i < w; i++ {
					q = append(q, put(key(i)))
				}
				for i := w; i < u; i++ {
					if first == "Put first" {
						q = append(q, put(key(i)), del(key(i-w)))
					} else {
						q = append(q, del(key(i-w)), put(key(i)))
					}
				}
				if run(q, fmt.Sprintf("a window of %d keys sliding %s across %d keys (%s)", w, dir, u, first)) {
					return
				}
			}
		}
	}
	if two {
		// bidirectional maps: at EVERY point of every drain (after an ascending fill) one colliding Put -
		// two-sided (key bound, value held by another key), same key with a free value, free key with a
		// held value - followed by one Remove
		valOf := func(k int) int { return (k*7 + 3) % u }
		f := fills[0]
		for _, d := range dels {
			var p []Op
			for _, k := range f.keys {
				p = append(p, put(k))
			}
			gone := map[int]bool{}
			for i := 0; i+2 < u; i++ {
				p = append(p, del(d.keys[i]))
				gone[d.keys[i]] = true
				k1, k2 := -1, -1
				for k := 0; k < u; k++ {
					if !gone[k] {
						if k1 < 0 {
							k1 = k
						}
						k2 = k
					}
				}
				free := d.keys[0]
				for _, probe := range [][]Op{
					{op("put", k1, valOf(k2)), del(k2)},
					{op("put", k1, valOf(free)), del(k1)},
					{op("put", free, valOf(k2)), del(k2)},
				} {
					q := append(append([]Op{}, p...), probe...)
					if run(q, fmt.Sprintf("%d pairs inserted ascending, %d removed %s, then a colliding Put and a Remove", u, i+1, d.name)) {
						return
					}
				}
			}
		}
	}
	r.St.Samples = []any{map[string]any{"system": sys.Name(), "family": "fill in {ascending, descending, zig-zag, inside-out, stride-golden, stride-minor, bit-reversal} x delete in those seven or every-second-first; and with half deleted, re-inserted ascending / descending, all deleted; sawtooth fills (a Remove after every third Put, re-inserted later); sliding windows of 3, 8, 17, 33 keys moving up / down across the universe; bidirectional maps: at every point of every drain one colliding Put (three kinds) and a Remove", "keys": u}}
}

func init() { jobKinds["churn"] = churnJob }

// heapChurnJob: heaps of u DISTINCT priorities (48/96) along a stated family of histories: fill in one
// of four orders by single pushes or by bulk pushes of three, drain completely; and: fill, pop half,
// push the popped elements back (ascending / descending), drain.  Every step under the heap oracle
// (Pop/Peek minimal and exact, Values a permutation headed by Peek), every distinct state drained.
func heapChurnJob(j Job, r *JobResult) {
	u := j.p("u", 48)
	c, cm := j.s("c", "binaryheap"), j.s("cmp", "min")
	sys := scalarHeapSys[int](c, cm, u, intRange(0, u-1), -99, 0)
	sys.Bulk, sys.JSONs = nil, nil
	r.St = Stats{Nested: map[string]int{}, PerSize: map[int]int{}, OpsHistogram: map[string]int{}, Exhaustive: true}
	bulkOK := sys.New().(*heapBox[int]).a.bulk
	run := func(path []Op, what string) bool {
		inflightSeq.Add(1)
		in := sys.New()
		for i, o := range path {
			desc := in.Describe(o)
			v := safeStep(in, o, sys.Props())
			r.St.Transitions++
			r.St.OpsHistogram[o.N]++
			if v == nil && j.Prop == "C17" {
				v = outGuardCheck("heap churn history")
			}
			if v != nil {
				if !v.Has(j.Prop) {
					if v.Class == "panic" {
						return false
					}
					continue
				}
				v.Msg = fmt.Sprintf("%s, step %d %s: %s", what, i, desc, v.Msg)
				r.Found = &Found{V: v, Path: path[:i+1], Calls: describePath(sys, path[:i+1], nil)}
				r.St.Exhaustive = false
				return true
			}
		}
		r.St.States++
		r.St.Nested["churn_histories"]++
		return false
	}
	if j.Replay != nil {
		// the bulk tuples of the recorded history are re-created below before it is replayed
	}
	var hist [][]Op
	var names []string
	for _, f := range fillOrders(u) {
		modes := []string{"single pushes"}
		if bulkOK {
			modes = append(modes, "bulk pushes of three")
		}
		for _, mode := range modes {
			var fill []Op
			if mode == "single pushes" {
				for _, k := range f.keys {
					fill = append(fill, op("push", k))
				}
			} else {
				for i := 0; i < len(f.keys); i += 3 {
					t := f.keys[i:min(i+3, len(f.keys))]
					if len(t) == 1 {
						fill = append(fill, op("push", t[0]))
						continue
					}
					sys.Bulk = append(sys.Bulk, append([]int{}, t...))
					fill = append(fill, op("bulk", len(sys.Bulk)-1))
				}
			}
			p := append([]Op{}, fill...)
			for i := 0; i < u; i++ {
				p = append(p, op("peek"), op("pop"))
			}
			hist = append(hist, p)
			names = append(names, fmt.Sprintf("%d distinct priorities pushed %s by %s, then drained", u, f.name, mode))
			if mode == "single pushes" {
				// sawtooth: after every second push one pop (the heap is reshaped by sift-downs while it grows),
				// then drained
				var st []Op
				for i, k := range f.keys {
					st = append(st, op("push", k))
					if i%2 == 1 {
						st = append(st, op("pop"))
					}
				}
				for i := 0; i < u-u/2; i++ {
					st = append(st, op("peek"), op("pop"))
				}
				hist = append(hist, st)
				names = append(names, fmt.Sprintf("%d distinct priorities pushed %s, one Pop after every second Push, then drained", u, f.name))
			}
			for _, back := range []string{"ascending", "descending"} {
				q := append([]Op{}, fill...)
				for i := 0; i < u/2; i++ {
					q = append(q, op("pop"))
				}
				// under a min-comparator the popped ones are 0..u/2-1, under a max-comparator the upper half
				lo, hi := 0, u/2-1
				if cm == "max" {
					lo, hi = u-u/2, u-1
				}
				ks := intRange(lo, hi)
				if back == "descending" {
					for l, rr := 0, len(ks)-1; l < rr; l, rr = l+1, rr-1 {
						ks[l], ks[rr] = ks[rr], ks[l]
					}
				}
				for _, k := range ks {
					q = append(q, op("push", k))
				}
				for i := 0; i < u; i++ {
					q = append(q, op("pop"))
				}
				hist = append(hist, q)
				names = append(names, fmt.Sprintf("%d distinct priorities pushed %s by %s, half popped, pushed back %s, drained", u, f.name, mode, back))
			}
		}
	}
	if j.Replay != nil {
		run(j.Replay.Path, "replayed history")
		return
	}
	for i, p := range hist {
		if run(p, names[i]) {
			return
		}
	}
	r.St.Samples = []any{map[string]any{"system": sys.Name(), "family": "fill in {ascending, descending, zig-zag, inside-out, stride-golden, stride-minor, bit-reversal} by single pushes / bulk pushes of three, drain; sawtooth (a Pop after every second Push), drain; and half popped, pushed back ascending / descending, drained", "priorities": u}}
}

func init() { jobKinds["heapchurn"] = heapChurnJob }
