package main

// Nested enumerations (iterator graphs, enumerable functions) on LARGE comparator-ordered containers.
//
// The fixpoint searches reach every tree shape up to 8-13 keys; a defect that needs a taller tree (a
// path stack sized by log2(n), a level cache, a long spine) lies beyond them, and a fixpoint at 30-70
// keys is out of reach.  This job enumerates a FAMILY of histories exhaustively instead: every prefix
// (sizes 0..N) of each fill order in {ascending, descending, zig-zag from both ends, inside-out}, and
// for each of the larger states additionally the state after removing every second key; the states
// are deduplicated by fingerprint and each one gets the property's complete nested enumeration
// (iterator state graph / enumerable functions with the predicate and mapping families).  The
// evidence labels these jobs "family": exhaustive over the stated histories, not over all shapes.

import "fmt"

type fillOrder struct {
	name string
	keys []int
}

func fillOrders(u int) []fillOrder {
	asc := intRange(0, u-1)
	desc := make([]int, u)
	for i := range desc {
		desc[i] = u - 1 - i
	}
	var zig, inside []int
	for lo, hi := 0, u-1; lo <= hi; lo, hi = lo+1, hi-1 {
		zig = append(zig, lo)
		if hi != lo {
			zig = append(zig, hi)
		}
	}
	seen := map[int]bool{}
	for d := 0; len(inside) < u; d++ {
		for _, k := range []int{u/2 - d - 1, u/2 + d} {
			if k >= 0 && k < u && !seen[k] {
				seen[k] = true
				inside = append(inside, k)
			}
		}
	}
	return []fillOrder{{"ascending", asc}, {"descending", desc}, {"zig-zag", zig}, {"inside-out", inside}}
}

func familyJob(j Job, r *JobResult) {
	c, u := j.s("c", ""), j.p("u", 40)
	check := j.s("check", "iter")
	var sys Sys
	var put, del func(k int) Op
	switch c {
	case "treeset", "linkedhashset":
		s := intSetSys(c, j.s("cmp", "nat"), u)
		s.Tuples = nil
		for i := 0; i < u; i++ {
			s.Tuples = append(s.Tuples, []int{i})
		}
		sys = s
		put = func(k int) Op { return op("Add", k) }
		del = func(k int) Op { return op("Remove", k) }
	default:
		jj := j
		jj.P = map[string]int{"u": u, "n": u, "vu": u, "m": j.p("m", 3)}
		sys = kvSysFromJob(jj)
		two := false
		for _, o := range sys.New().Ops() {
			if o.N == "put" && len(o.A) == 2 {
				two = true
			}
		}
		put = func(k int) Op {
			if two {
				return op("put", k, (k+u/3)%u)
			}
			return op("put", k)
		}
		del = func(k int) Op { return op("del", k) }
	}
	if j.Prop == "C18" {
		sys = pureSys(sys)
	}
	maxAll, maxFns, fullN := j.p("maxn", 4), j.p("maxfns", 100000), j.p("fullpred", 3)
	r.St = Stats{Nested: map[string]int{}, PerSize: map[int]int{}, OpsHistogram: map[string]int{}, Exhaustive: true}
	seen := map[[16]byte]bool{}
	nested := func(build func() Inst, st *Stats) *Viol {
		switch check {
		case "enum":
			en, ok := build().(enumerable)
			if !ok {
				return nil
			}
			ad := en.enumAdapter()
			if ad == nil {
				return nil
			}
			st.Nested["enum_states"]++
			ad.followCap = 16
			return enumCheck(ad, maxAll, maxFns, st)
		default:
			b := build().(Box)
			if b.NewIter() == nil {
				return nil
			}
			before, ids := CanonIDs(b.Opts(), b.Obj())
			if v := iterGraphCheck(b.NewIter, ids, b.ExpSeq(), b.Opts(), fullN, tag("C08"), st); v != nil {
				return v
			}
			if after, _ := CanonIDs(b.Opts(), b.Obj()); after != before {
				return viol(tag("C08", "C18"), "invariant", "iterating changed the container: %s -> %s", clip(before, 300), clip(after, 300))
			}
			return nil
		}
	}
	run := func(path []Op, what string) bool {
		inflightSeq.Add(1)
		build := func() Inst {
			in := sys.New()
			for _, o := range path {
				if v := safeStep(in, o, nil); v != nil && v.Class == "panic" {
					panic("tool error: family prefix panics: " + v.Msg) // reported by the history jobs of C01/C04
				}
			}
			return in
		}
		var v *Viol
		var fresh bool
		v = safeCheck(func() *Viol {
			in := build()
			h := hash16(in.Key())
			if seen[h] {
				return nil
			}
			seen[h], fresh = true, true
			return nil
		}, nil, "family prefix")
		if v == nil && fresh {
			r.St.States++
			r.St.PerSize[len(path)]++
			v = safeCheck(func() *Viol { return nested(build, &r.St) }, []string{j.Prop}, "nested enumeration")
			if v == nil && j.Prop == "C17" {
				v = outGuardCheck("nested enumeration")
			}
		}
		r.St.Transitions++
		if v != nil && v.Has(j.Prop) {
			v.Msg = what + ": " + v.Msg
			r.Found = &Found{V: v, Path: path, Calls: describePath(sys, path, nil), Nested: "nested enumeration on this state"}
			r.St.Exhaustive = false
			return true
		}
		return false
	}
	if j.Replay != nil {
		run(j.Replay.Path, "replayed history")
		return
	}
	for _, fo := range fillOrders(u) {
		name, ord := fo.name, fo.keys
		var path []Op
		for n := 0; n <= u; n++ {
			if n > 0 {
				path = append(path, put(ord[n-1]))
			}
			if run(append([]Op{}, path...), fmt.Sprintf("%d keys inserted %s", n, name)) {
				return
			}
			if n >= 8 && n%4 == 0 {
				// thinned out: every second inserted key removed again (rebalancing from the other side)
				p2 := append([]Op{}, path...)
				for i := 0; i < n; i += 2 {
					p2 = append(p2, del(ord[i]))
				}
				if run(p2, fmt.Sprintf("%d keys inserted %s, then every second one removed", n, name)) {
					return
				}
			}
		}
		r.St.Nested["history_families"]++
	}
	r.St.Samples = []any{map[string]any{"system": sys.Name(), "check": check, "family": "every prefix (sizes 0..N) of the fill orders {ascending, descending, zig-zag, inside-out}, plus every second key removed again at sizes 8, 12, ..", "N": u}}
}

func init() { jobKinds["family"] = familyJob }
