package main

// Key-value containers against an ordered-map reference (C01, C02, C07, C10).
//
// Two key strategies: rank-abstract (order-isomorphism abstraction, DESIGN.md
// §2.3, key type Key) and fixed universe (hash containers, bidi maps, JSON).

import (
	"fmt"
	"math"
	"reflect"
	"sort"
	"strconv"
	"strings"

	"github.com/emirpasic/gods/v2/maps/hashbidimap"
	"github.com/emirpasic/gods/v2/maps/hashmap"
	"github.com/emirpasic/gods/v2/maps/linkedhashmap"
	"github.com/emirpasic/gods/v2/maps/treebidimap"
	"github.com/emirpasic/gods/v2/maps/treemap"
	"github.com/emirpasic/gods/v2/sets/treeset"
	"github.com/emirpasic/gods/v2/trees/avltree"
	"github.com/emirpasic/gods/v2/trees/btree"
	"github.com/emirpasic/gods/v2/trees/redblacktree"
)

// Key is the abstract ordered key: comparators look at C only.
type Key struct {
	C Rank
	R Rep
}

// String shows the rank in units of the insertion spacing (k0, k1, k0.5 = inserted between them).
func (k Key) String() string {
	c := strconv.FormatFloat(float64(k.C)/float64(rankStep), 'g', -1, 64)
	if k.R == 0 {
		return "k" + c
	}
	return fmt.Sprintf("k%s'%d", c, int(k.R))
}

const rankStep = prepStep // spacing of keys appended / prepended beyond a prepared path

type kvEnt[K comparable, V comparable] struct {
	k    K
	v    V
	reps []K // representatives put since the class became live (coarse comparators)
}

type kvAPI[K comparable, V comparable] struct {
	obj      any
	name     string
	opts     CanonOpts
	put      func(K, V)
	get      func(K) (V, bool)
	remove   func(K)
	clear    func()
	size     func() int
	empty    func() bool
	keys     func() []K
	values   func() []V
	str      func() string
	getKey   func(V) (K, bool)
	min, max func() (K, V, bool)
	floor    func(K) (K, V, bool)
	ceiling  func(K) (K, V, bool)
	iter     func() *IterDyn
	setIter  func() *IterDyn      // TreeSet seen through the key-value adapter: (index, member) iterator
	walk     func() []kvEnt[K, V] // independent walk over the exported structure
	shape    func() *Viol         // exported-structure invariants (C07)
	extras   func(b any) *Viol    // the remaining exported entry points (GetNode, Node.Size/Next/Prev, IteratorAt, Iterator.Node)
	bound    func(n int) float64  // comparator-call bound for one Get/Put/Remove with n keys
	putMul   int
	remMul   int
	// enumerable (TreeMap, LinkedHashMap, TreeBidiMap)
	each    func(func(K, V))
	anyF    func(func(K, V) bool) bool
	allF    func(func(K, V) bool) bool
	find    func(func(K, V) bool) (K, V)
	selectF func(func(K, V) bool) *kvAPI[K, V]
	mapF    func(func(K, V) (K, V)) *kvAPI[K, V]
}

func wrapTreeMap[K comparable, V comparable](t *treemap.Map[K, V]) *kvAPI[K, V] {
	return &kvAPI[K, V]{obj: t, name: "TreeMap", put: t.Put, get: t.Get, remove: t.Remove, clear: t.Clear, size: t.Size,
		empty: t.Empty, keys: t.Keys, values: t.Values, str: t.String,
		min: t.Min, max: t.Max, floor: t.Floor, ceiling: t.Ceiling,
		iter:  func() *IterDyn { return keyIterRev[K, V](t.Iterator()) },
		bound: rbBound, putMul: 1, remMul: 1,
		each: t.Each, anyF: t.Any, allF: t.All, find: t.Find,
		selectF: func(f func(K, V) bool) *kvAPI[K, V] { return wrapTreeMap(t.Select(f)) },
		mapF:    func(f func(K, V) (K, V)) *kvAPI[K, V] { return wrapTreeMap(t.Map(f)) }}
}

func wrapTreeBidiMap[K comparable, V comparable](t *treebidimap.Map[K, V]) *kvAPI[K, V] {
	return &kvAPI[K, V]{obj: t, name: "TreeBidiMap", put: t.Put, get: t.Get, remove: t.Remove, clear: t.Clear, size: t.Size,
		empty: t.Empty, keys: t.Keys, values: t.Values, str: t.String, getKey: t.GetKey,
		iter:  func() *IterDyn { return keyIterRev[K, V](t.Iterator()) },
		bound: rbBound, putMul: 6, remMul: 3,
		each: t.Each, anyF: t.Any, allF: t.All, find: t.Find,
		selectF: func(f func(K, V) bool) *kvAPI[K, V] { return wrapTreeBidiMap(t.Select(f)) },
		mapF:    func(f func(K, V) (K, V)) *kvAPI[K, V] { return wrapTreeBidiMap(t.Map(f)) }}
}

func wrapLinkedHashMap[K comparable, V comparable](t *linkedhashmap.Map[K, V]) *kvAPI[K, V] {
	return &kvAPI[K, V]{obj: t, name: "LinkedHashMap", put: t.Put, get: t.Get, remove: t.Remove, clear: t.Clear, size: t.Size,
		empty: t.Empty, keys: t.Keys, values: t.Values, str: t.String,
		iter: func() *IterDyn { return keyIterRev[K, V](t.Iterator()) },
		each: t.Each, anyF: t.Any, allF: t.All, find: t.Find,
		selectF: func(f func(K, V) bool) *kvAPI[K, V] { return wrapLinkedHashMap(t.Select(f)) },
		mapF:    func(f func(K, V) (K, V)) *kvAPI[K, V] { return wrapLinkedHashMap(t.Map(f)) }}
}

type KVSys[K comparable, V comparable] struct {
	Kind    string // rbt avl btree treemap treebidimap hashmap linkedhashmap hashbidimap
	Order   int    // btree order
	CmpN    string // nat | rev | coarse  (key side)
	VCmpN   string // value side for treebidimap
	N       int    // live bound
	Rank    bool   // rank-abstract keys (K must be Key)
	KU      []K    // fixed key universe
	VU      []V    // fixed value universe (nil: fresh values)
	Fresh   func(i int) V
	KCmp    func(a, b K) int // comparator semantics on K (for hash containers: identity classes)
	VCmp    func(a, b V) int
	Probes  func(live []K) []K // extra probe keys for fixed universes (nil: the universe)
	PropsL  []string
	NoCount bool // do not count comparator calls (pure comparators for the concurrent passes)
	// Custom overrides how the real container is constructed (default constructors New[K cmp.Ordered]()).
	Custom func(b *kvBox[K, V]) *kvAPI[K, V]
	Label  string
	// Lite (rank mode, high B-tree orders): the alphabet is reduced to the positions
	// {first, second, middle, last-but-one, last}; the per-state probes stay complete.
	Lite bool
	// JSONTexts: inputs offered as FromJSON operations (fixed universes only); the reference adopts
	// what the text denotes (kvLoadRef)
	JSONTexts []string
	// Pos (deep mode for insertion-ordered maps, K = V = Val): keys are fresh values the fingerprint
	// drops; the alphabet puts a fresh key, re-puts / removes the key at a few positions of the
	// insertion order, removes an absent key, clears.
	Pos bool
}

func (s *KVSys[K, V]) Name() string {
	n := s.Kind
	if s.Kind == "btree" {
		n += fmt.Sprintf("(m=%d)", s.Order)
	}
	n += "/" + s.CmpN
	if s.Kind == "treebidimap" {
		n += "," + s.VCmpN
	}
	if s.Rank {
		n += "/rank"
	}
	if s.Pos {
		n += "/deep"
	}
	return n + s.Label
}
func (s *KVSys[K, V]) Props() []string { return s.PropsL }
func (s *KVSys[K, V]) setNoCount()     { s.NoCount = true }

func (s *KVSys[K, V]) ordered() bool {
	switch s.Kind {
	case "rbt", "avl", "btree", "treemap", "treebidimap", "treeset":
		return true
	}
	return false
}
func (s *KVSys[K, V]) linked() bool { return s.Kind == "linkedhashmap" }
func (s *KVSys[K, V]) bidi() bool   { return s.Kind == "treebidimap" || s.Kind == "hashbidimap" }

type kvBox[K comparable, V comparable] struct {
	sys   *KVSys[K, V]
	a     *kvAPI[K, V]
	ref   []kvEnt[K, V] // ordered containers: comparator order; linked: insertion order; hash: any
	calls int           // comparator calls (both comparators)
	nextV int
	nextR int
	// rank mode: ranks fixed by Prepare for the key-creating events (ins / delAbsent) of the path
	prepared []int64
	events   int
	// the key of the last Remove (checked by the observers of the same transition: it must be gone)
	lastRemoved *K
}

// comparators given to the container count their calls (only when the system asks for
// it: a counting comparator writes shared memory, which the concurrent-reader pass must not)
func (b *kvBox[K, V]) kcmp(x, y K) int { b.calls++; return b.sys.KCmp(x, y) }
func (b *kvBox[K, V]) vcmp(x, y V) int { b.calls++; return b.sys.VCmp(x, y) }
func (b *kvBox[K, V]) kc() func(x, y K) int {
	if b.sys.NoCount {
		return b.sys.KCmp
	}
	return b.kcmp
}
func (b *kvBox[K, V]) vc() func(x, y V) int {
	if b.sys.NoCount {
		return b.sys.VCmp
	}
	return b.vcmp
}

func (s *KVSys[K, V]) New() Inst { return s.newBox() }

func (s *KVSys[K, V]) newBox() *kvBox[K, V] {
	b := &kvBox[K, V]{sys: s}
	b.a = s.api(b)
	return b
}

func log2(x float64) float64 { return math.Log2(x) }

func rbBound(n int) float64  { return 2*log2(float64(n)+1) + 2 }
func avlBound(n int) float64 { return 1.45*log2(float64(n)+2) + 2 }
func btBound(m int) func(n int) float64 {
	return func(n int) float64 {
		half := float64((m + 1) / 2)
		return 4 * (log2(float64(m)) + 1) * (log2(float64(n)+1)/log2(half) + 1)
	}
}

func (s *KVSys[K, V]) api(b *kvBox[K, V]) *kvAPI[K, V] {
	if s.Custom != nil {
		return s.Custom(b)
	}
	switch s.Kind {
	case "rbt":
		return wrapRBT(redblacktree.NewWith[K, V](b.kc()))
	case "avl":
		return wrapAVL(avltree.NewWith[K, V](b.kc()))
	case "btree":
		return wrapBT(btree.NewWith[K, V](s.Order, b.kc()), s.Order)
	case "treemap":
		return wrapTreeMap(treemap.NewWith[K, V](b.kc()))
	case "treebidimap":
		return wrapTreeBidiMap(treebidimap.NewWith[K, V](b.kc(), b.vc()))
	case "treeset":
		return wrapTreeSetKV[K, V](treeset.NewWith[K](b.kc()))
	case "hashmap":
		t := hashmap.New[K, V]()
		return &kvAPI[K, V]{obj: t, name: "HashMap", put: t.Put, get: t.Get, remove: t.Remove, clear: t.Clear, size: t.Size,
			empty: t.Empty, keys: t.Keys, values: t.Values, str: t.String}
	case "linkedhashmap":
		return wrapLinkedHashMap(linkedhashmap.New[K, V]())
	case "hashbidimap":
		t := hashbidimap.New[K, V]()
		return &kvAPI[K, V]{obj: t, name: "HashBidiMap", put: t.Put, get: t.Get, remove: t.Remove, clear: t.Clear, size: t.Size,
			empty: t.Empty, keys: t.Keys, values: t.Values, str: t.String, getKey: t.GetKey}
	}
	panic("kv kind " + s.Kind)
}

// a TreeSet seen as a map from its members to the zero value (rank-abstract and float-key jobs)
func wrapTreeSetKV[K comparable, V comparable](t *treeset.Set[K]) *kvAPI[K, V] {
	var zv V
	return &kvAPI[K, V]{obj: t, name: "TreeSet", put: func(k K, _ V) { t.Add(k) },
		get:    func(k K) (V, bool) { return zv, t.Contains(k) },
		remove: func(k K) { t.Remove(k) }, clear: t.Clear, size: t.Size,
		empty: t.Empty, keys: t.Values, values: func() []V { return make([]V, t.Size()) }, str: t.String,
		setIter: func() *IterDyn { it := t.Iterator(); return idxIterRev[K](&it) },
		bound:   rbBound, putMul: 1, remMul: 1}
}

func wrapRBT[K comparable, V comparable](t *redblacktree.Tree[K, V]) *kvAPI[K, V] {
	nk := func(n *redblacktree.Node[K, V], ok bool) (K, V, bool) {
		if n == nil || !ok {
			var k K
			var v V
			// (node, found) disagreeing with each other is reported through the comparison with
			// the reference: found without a node reads as an unexpected hit
			return k, v, ok
		}
		return n.Key, n.Value, true
	}
	return &kvAPI[K, V]{obj: t, name: "RedBlackTree", put: t.Put, get: t.Get, remove: t.Remove, clear: t.Clear, size: t.Size,
		empty: t.Empty, keys: t.Keys, values: t.Values, str: t.String,
		min:     func() (K, V, bool) { n := t.Left(); return nk(n, n != nil) },
		max:     func() (K, V, bool) { n := t.Right(); return nk(n, n != nil) },
		floor:   func(k K) (K, V, bool) { return nk(t.Floor(k)) },
		ceiling: func(k K) (K, V, bool) { return nk(t.Ceiling(k)) },
		iter:    func() *IterDyn { return keyIterRev[K, V](t.Iterator()) },
		walk:    func() []kvEnt[K, V] { return rbtWalk(t.Root, nil) },
		shape:   func() *Viol { return rbtShape(t) },
		extras:  func(bx any) *Viol { return rbtExtras(t, bx.(*kvBox[K, V])) },
		bound:   rbBound, putMul: 1, remMul: 1}
}

func wrapAVL[K comparable, V comparable](t *avltree.Tree[K, V]) *kvAPI[K, V] {
	nk := func(n *avltree.Node[K, V], ok bool) (K, V, bool) {
		if n == nil || !ok {
			var k K
			var v V
			// (node, found) disagreeing with each other is reported through the comparison with
			// the reference: found without a node reads as an unexpected hit
			return k, v, ok
		}
		return n.Key, n.Value, true
	}
	return &kvAPI[K, V]{obj: t, name: "AVLTree", put: t.Put, get: t.Get, remove: t.Remove, clear: t.Clear, size: t.Size,
		empty: t.Empty, keys: t.Keys, values: t.Values, str: t.String,
		min:     func() (K, V, bool) { n := t.Left(); return nk(n, n != nil) },
		max:     func() (K, V, bool) { n := t.Right(); return nk(n, n != nil) },
		floor:   func(k K) (K, V, bool) { return nk(t.Floor(k)) },
		ceiling: func(k K) (K, V, bool) { return nk(t.Ceiling(k)) },
		iter:    func() *IterDyn { return keyIterRev[K, V](t.Iterator()) },
		walk:    func() []kvEnt[K, V] { return avlWalk(t.Root, nil) },
		shape:   func() *Viol { return avlShape(t) },
		extras:  func(bx any) *Viol { return avlExtras(t, bx.(*kvBox[K, V])) },
		bound:   avlBound, putMul: 1, remMul: 1}
}

func wrapBT[K comparable, V comparable](t *btree.Tree[K, V], order int) *kvAPI[K, V] {
	entryT := reflect.TypeOf([]*btree.Entry[K, V]{})
	childT := reflect.TypeOf([]*btree.Node[K, V]{})
	return &kvAPI[K, V]{obj: t, name: "BTree", put: t.Put, get: t.Get, remove: t.Remove, clear: t.Clear, size: t.Size,
		empty: t.Empty, keys: t.Keys, values: t.Values, str: t.String,
		opts: CanonOpts{DropCap: func(tp reflect.Type) bool { return tp == entryT || tp == childT }},
		min: func() (K, V, bool) {
			k, v := t.LeftKey(), t.LeftValue()
			if k == nil || v == nil {
				var zk K
				var zv V
				return zk, zv, false
			}
			return k.(K), v.(V), true
		},
		max: func() (K, V, bool) {
			k, v := t.RightKey(), t.RightValue()
			if k == nil || v == nil {
				var zk K
				var zv V
				return zk, zv, false
			}
			return k.(K), v.(V), true
		},
		iter:   func() *IterDyn { return keyIterRev[K, V](t.Iterator()) },
		walk:   func() []kvEnt[K, V] { return btWalk(t.Root, nil) },
		shape:  func() *Viol { return btShape(t, order) },
		extras: func(bx any) *Viol { return btExtras(t, bx.(*kvBox[K, V])) },
		bound:  btBound(order), putMul: 1, remMul: 1}
}

// ---- exported-structure walks and shape invariants ----------------------------

func rbtWalk[K comparable, V comparable](n *redblacktree.Node[K, V], acc []kvEnt[K, V]) []kvEnt[K, V] {
	if n == nil {
		return acc
	}
	acc = rbtWalk(n.Left, acc)
	acc = append(acc, kvEnt[K, V]{k: n.Key, v: n.Value})
	return rbtWalk(n.Right, acc)
}

func rbtShape[K comparable, V comparable](t *redblacktree.Tree[K, V]) *Viol {
	p := tag("C07")
	count := 0
	var bad *Viol
	var rec func(n, parent *redblacktree.Node[K, V], depth int) (mn, mx int)
	rec = func(n, parent *redblacktree.Node[K, V], depth int) (int, int) {
		if n == nil {
			return 0, 0
		}
		count++
		if depth > 200 {
			if bad == nil {
				bad = viol(p, "invariant", "red-black tree deeper than 200 levels (cycle?)")
			}
			return 0, 0
		}
		if n.Parent != parent && bad == nil {
			bad = viol(p, "invariant", "red-black tree: Parent link of node %v does not mirror the child link (Parent=%v, reached from %v)", n.Key, keyOf(n.Parent), keyOf(parent))
		}
		lmn, lmx := rec(n.Left, n, depth+1)
		rmn, rmx := rec(n.Right, n, depth+1)
		return 1 + min(lmn, rmn), 1 + max(lmx, rmx)
	}
	mn, mx := rec(t.Root, nil, 0)
	if bad != nil {
		return bad
	}
	if count != t.Size() {
		return viol(p, "invariant", "red-black tree: %d nodes reachable from Root but Size() = %d", count, t.Size())
	}
	// path lengths counted in nodes to a nil leaf: longest <= 2 * shortest (+ the nil itself)
	if mx > 2*mn {
		return viol(p, "invariant", "red-black tree: longest root-to-leaf path (%d nodes) is more than twice the shortest (%d nodes)", mx, mn)
	}
	return nil
}

func keyOf[K comparable, V comparable](n *redblacktree.Node[K, V]) any {
	if n == nil {
		return nil
	}
	return n.Key
}

func avlWalk[K comparable, V comparable](n *avltree.Node[K, V], acc []kvEnt[K, V]) []kvEnt[K, V] {
	if n == nil {
		return acc
	}
	acc = avlWalk(n.Children[0], acc)
	acc = append(acc, kvEnt[K, V]{k: n.Key, v: n.Value})
	return avlWalk(n.Children[1], acc)
}

func avlShape[K comparable, V comparable](t *avltree.Tree[K, V]) *Viol {
	p := tag("C07")
	var bad *Viol
	var rec func(n *avltree.Node[K, V], depth int) int
	rec = func(n *avltree.Node[K, V], depth int) int {
		if n == nil || depth > 200 {
			return 0
		}
		l, r := rec(n.Children[0], depth+1), rec(n.Children[1], depth+1)
		if d := l - r; (d > 1 || d < -1) && bad == nil {
			bad = viol(p, "invariant", "AVL tree: subtree heights of node %v differ by %d (left %d, right %d)", n.Key, d, l, r)
		}
		return 1 + max(l, r)
	}
	rec(t.Root, 0)
	return bad
}

func btWalk[K comparable, V comparable](n *btree.Node[K, V], acc []kvEnt[K, V]) []kvEnt[K, V] {
	if n == nil {
		return acc
	}
	for i := 0; i <= len(n.Entries); i++ {
		if i < len(n.Children) {
			acc = btWalk(n.Children[i], acc)
		}
		if i < len(n.Entries) {
			acc = append(acc, kvEnt[K, V]{k: n.Entries[i].Key, v: n.Entries[i].Value})
		}
	}
	return acc
}

func btShape[K comparable, V comparable](t *btree.Tree[K, V], m int) *Viol {
	p := tag("C07")
	if t.Root == nil {
		if h := t.Height(); h != 0 {
			return viol(p, "invariant", "B-tree: empty tree reports Height() = %d", h)
		}
		return nil
	}
	minKeys := (m+1)/2 - 1
	leafDepth := -1
	levels := 0
	var bad *Viol
	var rec func(n *btree.Node[K, V], depth int)
	rec = func(n *btree.Node[K, V], depth int) {
		if bad != nil || depth > 64 {
			return
		}
		if depth+1 > levels {
			levels = depth + 1
		}
		if len(n.Children) > m {
			bad = viol(p, "invariant", "B-tree(order %d): node has %d children", m, len(n.Children))
			return
		}
		if len(n.Entries) > m-1 {
			bad = viol(p, "invariant", "B-tree(order %d): node has %d keys", m, len(n.Entries))
			return
		}
		if n != t.Root && len(n.Entries) < minKeys {
			bad = viol(p, "invariant", "B-tree(order %d): non-root node has %d keys, fewer than ceil(m/2)-1 = %d", m, len(n.Entries), minKeys)
			return
		}
		if n == t.Root && len(n.Entries) < 1 {
			bad = viol(p, "invariant", "B-tree(order %d): non-empty tree whose root has no keys", m)
			return
		}
		if len(n.Children) == 0 {
			if leafDepth == -1 {
				leafDepth = depth
			} else if leafDepth != depth {
				bad = viol(p, "invariant", "B-tree(order %d): leaves at depths %d and %d", m, leafDepth, depth)
			}
			return
		}
		if len(n.Children) != len(n.Entries)+1 {
			bad = viol(p, "invariant", "B-tree(order %d): node with %d children has %d keys", m, len(n.Children), len(n.Entries))
			return
		}
		for _, c := range n.Children {
			if c == nil {
				bad = viol(p, "invariant", "B-tree(order %d): nil child", m)
				return
			}
			rec(c, depth+1)
		}
	}
	rec(t.Root, 0)
	if bad != nil {
		return bad
	}
	if h := t.Height(); h != levels {
		return viol(p, "invariant", "B-tree(order %d): Height() = %d but the tree has %d levels", m, h, levels)
	}
	return nil
}

// ---- the remaining exported entry points of the three trees ----------------------

var pNav = []string{"C02", "C01"}

func rbtExtras[K comparable, V comparable](t *redblacktree.Tree[K, V], b *kvBox[K, V]) *Viol {
	n := len(b.ref)
	if got := t.Root.Size(); got != n {
		return viol(tag("C07", "C01"), "invariant", "RedBlackTree Root.Size() = %d, reference has %d keys", got, n)
	}
	for _, pk := range b.probes() {
		node := t.GetNode(pk)
		i := b.find(pk)
		if (node != nil) != (i >= 0) {
			return viol(pNav, "mismatch", "RedBlackTree.GetNode(%v) = %v, reference index %d", pk, node, i)
		}
		if node == nil {
			continue
		}
		if !b.sameK(node.Key, b.ref[i].k) || node.Value != b.ref[i].v {
			return viol(pNav, "mismatch", "RedBlackTree.GetNode(%v) holds %v:%v, reference %v:%v", pk, node.Key, node.Value, b.ref[i].k, b.ref[i].v)
		}
		if node.String() != fmt.Sprintf("%v", node.Key) {
			return viol(pNav, "mismatch", "Node.String() = %q", node.String())
		}
		// an iterator initialised at this node: reads it, Next is the successor, Prev the predecessor
		it := t.IteratorAt(node)
		if !b.sameK(it.Key(), b.ref[i].k) || it.Value() != b.ref[i].v || it.Node() != node {
			return viol(tag("C08", "C02"), "mismatch", "IteratorAt(node %v) reads %v:%v", node.Key, it.Key(), it.Value())
		}
		if ok := it.Next(); ok != (i+1 < n) || (ok && (!b.sameK(it.Key(), b.ref[i+1].k) || it.Value() != b.ref[i+1].v)) {
			return viol(tag("C08", "C02"), "mismatch", "IteratorAt(node %v).Next() = %v, reference successor index %d of %d", node.Key, ok, i+1, n)
		}
		it = t.IteratorAt(node)
		if ok := it.Prev(); ok != (i > 0) || (ok && (!b.sameK(it.Key(), b.ref[i-1].k) || it.Value() != b.ref[i-1].v)) {
			return viol(tag("C08", "C02"), "mismatch", "IteratorAt(node %v).Prev() = %v, reference predecessor index %d", node.Key, ok, i-1)
		}
	}
	return nil
}

func avlExtras[K comparable, V comparable](t *avltree.Tree[K, V], b *kvBox[K, V]) *Viol {
	n := len(b.ref)
	if got := t.Root.Size(); got != n {
		return viol(tag("C07", "C01"), "invariant", "AVLTree Root.Size() = %d, reference has %d keys", got, n)
	}
	for _, pk := range b.probes() {
		node := t.GetNode(pk)
		i := b.find(pk)
		if (node != nil) != (i >= 0) {
			return viol(pNav, "mismatch", "AVLTree.GetNode(%v) = %v, reference index %d", pk, node, i)
		}
		if node != nil && (!b.sameK(node.Key, b.ref[i].k) || node.Value != b.ref[i].v) {
			return viol(pNav, "mismatch", "AVLTree.GetNode(%v) holds %v:%v, reference %v:%v", pk, node.Key, node.Value, b.ref[i].k, b.ref[i].v)
		}
		if node != nil && node.String() != fmt.Sprintf("%v", node.Key) {
			return viol(pNav, "mismatch", "Node.String() = %q", node.String())
		}
	}
	// Node.Next() from the least node walks the whole sequence; Node.Prev() from the greatest walks it back
	i := 0
	for nd := t.Left(); nd != nil; nd = nd.Next() {
		if i >= n || !b.sameK(nd.Key, b.ref[i].k) || nd.Value != b.ref[i].v {
			return viol(pNav, "mismatch", "AVL Node.Next() walk: element #%d = %v:%v, reference %v", i, nd.Key, nd.Value, b.refString())
		}
		i++
	}
	if i != n {
		return viol(pNav, "mismatch", "AVL Node.Next() walk visits %d nodes, reference has %d", i, n)
	}
	i = n - 1
	for nd := t.Right(); nd != nil; nd = nd.Prev() {
		if i < 0 || !b.sameK(nd.Key, b.ref[i].k) {
			return viol(pNav, "mismatch", "AVL Node.Prev() walk: element at %d = %v, reference %v", i, nd.Key, b.refString())
		}
		i--
	}
	if i != -1 {
		return viol(pNav, "mismatch", "AVL Node.Prev() walk stopped at position %d", i)
	}
	it := t.Iterator()
	for it.Next() {
		if nd := it.Node(); nd == nil || !b.sameK(nd.Key, it.Key()) {
			return viol(tag("C08"), "mismatch", "AVL Iterator.Node() = %v while Key() = %v", nd, it.Key())
		}
	}
	return nil
}

func btExtras[K comparable, V comparable](t *btree.Tree[K, V], b *kvBox[K, V]) *Viol {
	n := len(b.ref)
	nodes := 0
	var count func(nd *btree.Node[K, V], d int)
	count = func(nd *btree.Node[K, V], d int) {
		if nd == nil || d > 64 {
			return
		}
		nodes++
		for _, c := range nd.Children {
			count(c, d+1)
		}
	}
	count(t.Root, 0)
	if got := t.Root.Size(); got != nodes {
		return viol(tag("C07"), "invariant", "BTree Root.Size() = %d but the tree has %d nodes", got, nodes)
	}
	for _, pk := range b.probes() {
		node := t.GetNode(pk)
		i := b.find(pk)
		if (node != nil) != (i >= 0) {
			return viol(pNav, "mismatch", "BTree.GetNode(%v) = %v, reference index %d", pk, node, i)
		}
		if node != nil {
			found := false
			for _, e := range node.Entries {
				if b.sameK(e.Key, b.ref[i].k) && e.Value == b.ref[i].v {
					found = true
					if e.String() != fmt.Sprintf("%v", e.Key) {
						return viol(pNav, "mismatch", "Entry.String() = %q", e.String())
					}
				}
			}
			if !found {
				return viol(pNav, "mismatch", "BTree.GetNode(%v) returned a node that does not hold the binding %v:%v", pk, b.ref[i].k, b.ref[i].v)
			}
		}
	}
	l, r := t.Left(), t.Right()
	if (l == nil) != (n == 0) || (r == nil) != (n == 0) {
		return viol(pNav, "mismatch", "BTree.Left()/Right() = %v/%v with %d keys", l, r, n)
	}
	if n > 0 {
		if len(l.Children) != 0 || !b.sameK(l.Entries[0].Key, b.ref[0].k) {
			return viol(pNav, "mismatch", "BTree.Left() is not the leaf holding the least key")
		}
		if len(r.Children) != 0 || !b.sameK(r.Entries[len(r.Entries)-1].Key, b.ref[n-1].k) {
			return viol(pNav, "mismatch", "BTree.Right() is not the leaf holding the greatest key")
		}
	}
	it := t.Iterator()
	for it.Next() {
		nd := it.Node()
		ok := false
		if nd != nil {
			for _, e := range nd.Entries {
				if b.sameK(e.Key, it.Key()) {
					ok = true
				}
			}
		}
		if !ok {
			return viol(tag("C08"), "mismatch", "BTree Iterator.Node() does not hold the key %v the iterator reads", it.Key())
		}
	}
	return nil
}

// ---- reference model -----------------------------------------------------------

func (b *kvBox[K, V]) sameK(x, y K) bool { return b.sys.KCmp(x, y) == 0 }
func (b *kvBox[K, V]) sameV(x, y V) bool { return b.sys.VCmp(x, y) == 0 }

func (b *kvBox[K, V]) find(k K) int {
	for i := range b.ref {
		if b.sameK(b.ref[i].k, k) {
			return i
		}
	}
	return -1
}

func (b *kvBox[K, V]) refPut(k K, v V) {
	if b.sys.bidi() {
		// drop the pair that held the same value (C10)
		for i := range b.ref {
			if b.sameV(b.ref[i].v, v) && !b.sameK(b.ref[i].k, k) {
				b.ref = append(append([]kvEnt[K, V]{}, b.ref[:i]...), b.ref[i+1:]...)
				break
			}
		}
	}
	if i := b.find(k); i >= 0 {
		nr := append([]kvEnt[K, V]{}, b.ref...)
		nr[i].reps = append(append([]K{}, nr[i].reps...), k)
		nr[i].v = v
		b.ref = nr
		return
	}
	e := kvEnt[K, V]{k: k, v: v, reps: []K{k}}
	if b.sys.ordered() {
		pos := sort.Search(len(b.ref), func(i int) bool { return b.sys.KCmp(b.ref[i].k, k) > 0 })
		nr := append([]kvEnt[K, V]{}, b.ref[:pos]...)
		nr = append(nr, e)
		b.ref = append(nr, b.ref[pos:]...)
	} else {
		b.ref = append(append([]kvEnt[K, V]{}, b.ref...), e)
	}
}

func (b *kvBox[K, V]) refRemove(k K) bool {
	if i := b.find(k); i >= 0 {
		b.ref = append(append([]kvEnt[K, V]{}, b.ref[:i]...), b.ref[i+1:]...)
		return true
	}
	return false
}

// ---- alphabet --------------------------------------------------------------------

func (b *kvBox[K, V]) liveRanks() []int64 {
	cs := make([]int64, 0, len(b.ref))
	for _, e := range b.ref {
		cs = append(cs, int64(any(e.k).(Key).C))
	}
	sort.Slice(cs, func(i, j int) bool { return cs[i] < cs[j] })
	return cs
}

// Prepare fixes, before a path is replayed, the rank of every key the path will create (rank mode):
// the path is simulated on a list of event ids to obtain the total order of all keys it ever
// inserts or probes (a new key is placed directly after its live predecessor), and event i gets
// rank (position+1)*prepStep.  Keys are therefore evenly spaced however often a path inserts next
// to the same neighbour, and the fingerprint — which renames ranks by order — does not depend on
// the concrete numbers.  Keys created beyond the prepared path (state probes, short nested
// continuations) fall back to midpoints, for which prepStep leaves 20 halvings.
func (b *kvBox[K, V]) Prepare(path []Op) {
	if !b.sys.Rank {
		return
	}
	type cell struct{ next int } // total order as a singly linked list over event ids; -1 = end
	next := []int{}              // next[id]
	head := -1
	var live []int // event ids of the live keys in ascending order
	insertAfter := func(pred int) int {
		id := len(next)
		if pred < 0 {
			next = append(next, head)
			head = id
		} else {
			next = append(next, next[pred])
			next[pred] = id
		}
		return id
	}
	_ = cell{}
	for _, o := range path {
		switch o.N {
		case "ins", "delAbsent":
			g := o.A[0]
			if g > len(live) {
				g = len(live)
			}
			pred := -1
			if g > 0 {
				pred = live[g-1]
			}
			id := insertAfter(pred)
			if o.N == "ins" {
				live = append(live, 0)
				copy(live[g+1:], live[g:])
				live[g] = id
			}
		case "del":
			if r := o.A[0]; r >= 0 && r < len(live) {
				live = append(live[:r], live[r+1:]...)
			}
		case "clear":
			live = nil
		}
	}
	b.prepared = make([]int64, len(next))
	pos := int64(0)
	for id := head; id >= 0; id = next[id] {
		pos++
		b.prepared[id] = pos * prepStep
	}
	b.events = 0
}

const prepStep = int64(1) << 20

// newRank: the rank for a key-creating event in gap g
func (b *kvBox[K, V]) newRank(cs []int64, g int, consume bool) int64 {
	if b.events < len(b.prepared) {
		r := b.prepared[b.events]
		if consume {
			b.events++
		}
		// the prepared rank must lie in the requested gap (a mismatch means the simulation and the
		// real history disagree — a tool error, never silent)
		if (g > 0 && g <= len(cs) && r <= cs[g-1]) || (g < len(cs) && r >= cs[g]) {
			panic(fmt.Sprintf("tool error: prepared rank %d is not inside gap %d of %v", r, g, cs))
		}
		return r
	}
	return gapRank(cs, g)
}

func gapRank(cs []int64, g int) int64 {
	n := len(cs)
	switch {
	case n == 0:
		return 0
	case g <= 0:
		return cs[0] - rankStep
	case g >= n:
		return cs[n-1] + rankStep
	}
	lo, hi := cs[g-1], cs[g]
	mid := lo + (hi-lo)/2
	if mid <= lo || mid >= hi {
		panic(fmt.Sprintf("tool error: rank gap exhausted between %d and %d", lo, hi))
	}
	return mid
}

func (b *kvBox[K, V]) Ops() []Op {
	var ops []Op
	n := len(b.ref)
	s := b.sys
	if s.Pos {
		if n < s.N {
			ops = append(ops, op("ins"))
		}
		if n > 0 {
			for _, p := range litePositions(n - 1) {
				ops = append(ops, op("upd", p), op("del", p))
			}
		}
		return append(ops, op("delAbsent"), op("clear"))
	}
	if s.Rank && s.Lite {
		pos := func(max int) []int { // distinct positions in 0..max
			seen := map[int]bool{}
			var r []int
			for _, p := range []int{0, 1, max / 2, max - 1, max} {
				if p >= 0 && p <= max && !seen[p] {
					seen[p] = true
					r = append(r, p)
				}
			}
			return r
		}
		if n < s.N {
			for _, g := range pos(n) {
				ops = append(ops, op("ins", g))
			}
		}
		if n > 0 {
			for _, r := range pos(n - 1) {
				ops = append(ops, op("upd", r), op("del", r))
			}
		}
		for _, g := range pos(n) {
			ops = append(ops, op("delAbsent", g))
		}
		return append(ops, op("clear"))
	}
	if s.Rank {
		if n < s.N {
			for g := 0; g <= n; g++ {
				ops = append(ops, op("ins", g))
			}
		}
		for r := 0; r < n; r++ {
			ops = append(ops, op("upd", r))
		}
		for r := 0; r < n; r++ {
			ops = append(ops, op("del", r))
		}
		for g := 0; g <= n; g++ {
			ops = append(ops, op("delAbsent", g))
		}
		ops = append(ops, op("clear"))
		return ops
	}
	for i, k := range s.KU {
		if n >= s.N && b.find(k) < 0 {
			continue
		}
		if s.VU == nil {
			ops = append(ops, op("put", i))
		} else {
			for j := range s.VU {
				ops = append(ops, op("put", i, j))
			}
		}
	}
	for i := range s.KU {
		ops = append(ops, op("del", i))
	}
	ops = append(ops, op("clear"))
	for ti := range s.JSONTexts {
		ops = append(ops, op("fromjson", ti))
	}
	return ops
}

// resolve turns an op into (kind, key, value)
func (b *kvBox[K, V]) resolve(o Op) (kind string, k K, v V) { return b.resolveC(o, false) }

// resolveC: consume = true when the operation is really performed (Do), false for Describe
func (b *kvBox[K, V]) resolveC(o Op, consume bool) (kind string, k K, v V) {
	s := b.sys
	if s.Pos {
		switch o.N {
		case "ins":
			kind, k = "put", any(Val(1000000+b.nextR+1)).(K)
		case "upd":
			kind, k = "put", b.ref[o.A[0]].k
		case "del":
			kind, k = "remove", b.ref[o.A[0]].k
		case "delAbsent":
			kind, k = "removeAbsent", any(Val(-5)).(K)
		case "clear":
			kind = "clear"
		default:
			panic("kv op " + o.N)
		}
		if kind == "put" {
			v = s.Fresh(b.nextV + 1)
		}
		return
	}
	if s.Rank {
		cs := b.liveRanks()
		var key Key
		switch o.N {
		case "ins":
			key = Key{C: Rank(b.newRank(cs, o.A[0], consume))}
			kind = "put"
		case "upd":
			key = Key{C: Rank(cs[o.A[0]])}
			if s.CmpN == "coarse" {
				key.R = Rep(b.nextR + 1)
			}
			kind = "put"
		case "del":
			key = Key{C: Rank(cs[o.A[0]])}
			if s.CmpN == "coarse" {
				key.R = Rep(-1) // remove through a different, equal-comparing representative
			}
			kind = "remove"
		case "delAbsent":
			key = Key{C: Rank(b.newRank(cs, o.A[0], consume))}
			kind = "removeAbsent"
		case "clear":
			kind = "clear"
		default:
			panic("kv op " + o.N)
		}
		k = any(key).(K)
		if kind == "put" {
			v = s.Fresh(b.nextV + 1)
		}
		return
	}
	switch o.N {
	case "put":
		k = s.KU[o.A[0]]
		if s.VU != nil {
			v = s.VU[o.A[1]]
		} else {
			v = s.Fresh(b.nextV + 1)
		}
		kind = "put"
	case "del":
		k = s.KU[o.A[0]]
		kind = "remove"
		if b.find(k) < 0 {
			kind = "removeAbsent"
		}
	case "clear":
		kind = "clear"
	case "fromjson":
		kind = "fromjson"
	default:
		panic("kv op " + o.N)
	}
	return
}

func (b *kvBox[K, V]) Describe(o Op) string {
	if o.N == "fromjson" {
		return fmt.Sprintf("FromJSON(%s)", b.sys.JSONTexts[o.A[0]])
	}
	kind, k, v := b.resolve(o)
	switch kind {
	case "put":
		return fmt.Sprintf("Put(%v, %v)", k, v)
	case "remove":
		return fmt.Sprintf("Remove(%v)", k)
	case "removeAbsent":
		return fmt.Sprintf("Remove(%v) [absent]", k)
	}
	return "Clear()"
}

func (b *kvBox[K, V]) Size() int   { return len(b.ref) }
func (b *kvBox[K, V]) Key() string { return Canon(b.a.opts, b.a.obj) }
func (b *kvBox[K, V]) Obs() string {
	var sb strings.Builder
	for _, e := range b.ref {
		fmt.Fprintf(&sb, "%v;", e.k)
	}
	return sb.String()
}

func (b *kvBox[K, V]) mainProp() string {
	if b.sys.bidi() {
		return "C10"
	}
	if b.sys.Kind == "treeset" {
		return "C04"
	}
	return "C01"
}

// Step = Do (the operation on the real object and the reference, return values compared)
// followed by Content (the cheap observer comparison that runs on every transition).
func (b *kvBox[K, V]) Step(o Op) *Viol {
	if v := b.Do(o); v != nil {
		return v
	}
	return b.content()
}

func (b *kvBox[K, V]) Content() *Viol { return b.content() }

func (b *kvBox[K, V]) Do(o Op) *Viol {
	kind, k, v := b.resolveC(o, true)
	n := len(b.ref)
	switch kind {
	case "put":
		b.nextV++
		b.nextR++
		b.calls = 0
		b.a.put(k, v)
		if vv := b.boundCheck("Put", n, b.a.putMul); vv != nil {
			return vv
		}
		b.refPut(k, v)
	case "remove":
		b.calls = 0
		b.a.remove(k)
		if vv := b.boundCheck("Remove", n, b.a.remMul); vv != nil {
			return vv
		}
		b.refRemove(k)
		kk := k
		b.lastRemoved = &kk
	case "removeAbsent":
		before := b.Key()
		b.calls = 0
		b.a.remove(k)
		if vv := b.boundCheck("Remove(absent)", n, b.a.remMul); vv != nil {
			return vv
		}
		if after := b.Key(); after != before {
			return viol(tag(b.mainProp(), "C01"), "mismatch", "Remove of absent key %v changed the container:\n before %s\n after  %s", k, clip(before, 400), clip(after, 400))
		}
	case "clear":
		b.a.clear()
		b.ref = nil
	case "fromjson":
		data := []byte(b.sys.JSONTexts[o.A[0]])
		err := b.a.obj.(interface{ FromJSON([]byte) error }).FromJSON(data)
		if err != nil {
			return viol(tag(b.mainProp(), "C12"), "mismatch", "FromJSON(%s) failed: %v", data, err)
		}
		if !kvLoadRef(b, data) {
			panic("tool error: reference cannot decode " + string(data))
		}
	}
	return nil
}

func (b *kvBox[K, V]) boundCheck(what string, n, mul int) *Viol {
	if b.a.bound == nil {
		return nil
	}
	bd := math.Floor(float64(mul)*b.a.bound(n) + 1e-9)
	if float64(b.calls) > bd {
		return viol(tag("C07"), "invariant", "%s on %s with n=%d keys invoked the comparator %d times, bound %.0f", what, b.a.name, n, b.calls, bd)
	}
	return nil
}

// content: cheap comparison on every transition — Size, Keys()/Values() against the reference
func (b *kvBox[K, V]) content() *Viol {
	mp := b.mainProp()
	enumProp := mp // a wrong number of enumerated keys also breaks the enumeration property of the container kind
	if b.sys.ordered() {
		enumProp = "C02"
	} else if b.sys.linked() {
		enumProp = "C09"
	}
	if got := b.a.size(); got != len(b.ref) {
		return viol(tag(mp, "C01", "C15", enumProp), "mismatch", "Size() = %d, reference has %d live keys", got, len(b.ref))
	}
	if lr := b.lastRemoved; lr != nil {
		b.lastRemoved = nil
		if b.find(*lr) < 0 {
			if v, ok := b.a.get(*lr); ok {
				return viol(tag(mp, "C01"), "mismatch", "Get(%v) = (%v, true) right after Remove(%v)", *lr, v, *lr)
			}
		}
	}
	keys, vals := b.a.keys(), b.a.values()
	if len(keys) != len(b.ref) || len(vals) != len(b.ref) {
		return viol(tag(mp, "C01", "C15", enumProp), "mismatch", "len(Keys()) = %d, len(Values()) = %d, reference has %d live keys", len(keys), len(vals), len(b.ref))
	}
	s := b.sys
	if s.ordered() || s.linked() {
		ordProps := tag(mp, "C01")
		if s.ordered() {
			ordProps = tag(mp, "C01", "C02")
		} else {
			ordProps = tag(mp, "C01", "C09")
		}
		for i, e := range b.ref {
			if !b.sameK(keys[i], e.k) {
				return viol(ordProps, "mismatch", "Keys() = %v, reference order = %v", keys, b.refKeys())
			}
			if !b.isRep(e, keys[i]) {
				return viol(tag(mp, "C01", "C02"), "mismatch", "Keys()[%d] = %v is not a key that was put for this class since it became live (%v)", i, keys[i], e.reps)
			}
			b.ref[i].k = keys[i] // adopt the implementation's (admissible) representative
		}
		if s.Kind == "treebidimap" {
			// values enumerate in value-comparator order
			exp := make([]V, len(b.ref))
			for i, e := range b.ref {
				exp[i] = e.v
			}
			sort.SliceStable(exp, func(i, j int) bool { return s.VCmp(exp[i], exp[j]) < 0 })
			for i := range exp {
				if vals[i] != exp[i] {
					return viol(tag(mp, "C01", "C02"), "mismatch", "Values() = %v, reference (value-comparator order) = %v", vals, exp)
				}
			}
		} else {
			for i, e := range b.ref {
				if vals[i] != e.v {
					return viol(tag(mp, "C01"), "mismatch", "Values() = %v not position-aligned with Keys() = %v; reference bindings %v", vals, keys, b.refString())
				}
			}
		}
	} else {
		// unordered: multisets
		rk, rv := make([]K, len(b.ref)), make([]V, len(b.ref))
		for i, e := range b.ref {
			rk[i], rv[i] = e.k, e.v
		}
		if !sameMultiset(keys, rk) {
			return viol(tag(mp, "C01"), "mismatch", "Keys() = %v, reference keys = %v", keys, rk)
		}
		if !sameMultiset(vals, rv) {
			return viol(tag(mp, "C01"), "mismatch", "Values() = %v, reference values = %v", vals, rv)
		}
	}
	return nil
}

func (b *kvBox[K, V]) isRep(e kvEnt[K, V], k K) bool {
	for _, r := range e.reps {
		if eqv(r, k) {
			return true
		}
	}
	return false
}

func (b *kvBox[K, V]) refKeys() []K {
	ks := make([]K, len(b.ref))
	for i, e := range b.ref {
		ks[i] = e.k
	}
	return ks
}

func (b *kvBox[K, V]) refString() string {
	var sb strings.Builder
	for _, e := range b.ref {
		fmt.Fprintf(&sb, "%v:%v ", e.k, e.v)
	}
	return sb.String()
}

// probes: every live key (through a different equal-comparing representative where
// possible) and one absent key per gap / the rest of the universe.
func (b *kvBox[K, V]) probes() (ks []K) {
	s := b.sys
	if s.Rank {
		cs := b.liveRanks()
		for g := 0; g <= len(cs); g++ {
			ks = append(ks, any(Key{C: Rank(gapRank(cs, g))}).(K))
			if g < len(cs) {
				r := Rep(0)
				if s.CmpN == "coarse" {
					r = -2
				}
				ks = append(ks, any(Key{C: Rank(cs[g]), R: r}).(K))
			}
		}
		return
	}
	if s.Pos {
		ks = append(ks, any(Val(-5)).(K))
		if n := len(b.ref); n > 0 {
			for _, p := range litePositions(n - 1) {
				ks = append(ks, b.ref[p].k)
			}
		}
		return
	}
	ks = append(ks, s.KU...)
	if s.Probes != nil {
		ks = append(ks, s.Probes(b.refKeys())...)
	}
	return
}

func (b *kvBox[K, V]) CheckState() *Viol {
	if v := b.content(); v != nil {
		return v
	}
	mp := b.mainProp()
	s := b.sys
	n := len(b.ref)
	var zk K
	var zv V
	if e := b.a.empty(); e != (n == 0) {
		return viol(tag(mp, "C15"), "invariant", "Empty() = %v with %d live keys", e, n)
	}
	if st := b.a.str(); !strings.HasPrefix(st, b.a.name) {
		return viol(tag("C15"), "invariant", "String() = %q does not begin with %q", st, b.a.name)
	}
	// Get on every probe, with the comparator-call bound
	for _, k := range b.probes() {
		b.calls = 0
		got, ok := b.a.get(k)
		if vv := b.boundCheck(fmt.Sprintf("Get(%v)", k), n, 1); vv != nil {
			return vv
		}
		if i := b.find(k); i >= 0 {
			if !ok || got != b.ref[i].v {
				return viol(tag(mp, "C01"), "mismatch", "Get(%v) = (%v, %v), reference says (%v, true)", k, got, ok, b.ref[i].v)
			}
		} else if ok || got != zv {
			return viol(tag(mp, "C01"), "mismatch", "Get(%v) = (%v, %v) for an absent key, want (zero, false)", k, got, ok)
		}
	}
	// bidi: inverse direction over the whole value universe
	if b.a.getKey != nil {
		vu := append([]V{}, s.VU...)
		for _, v := range vu {
			gk, ok := b.a.getKey(v)
			idx := -1
			for i, e := range b.ref {
				if b.sameV(e.v, v) {
					idx = i
				}
			}
			if idx >= 0 {
				if !ok || !b.sameK(gk, b.ref[idx].k) {
					return viol(tag("C10", "C01"), "mismatch", "GetKey(%v) = (%v, %v), reference pair is %v:%v", v, gk, ok, b.ref[idx].k, b.ref[idx].v)
				}
			} else if ok || gk != zk {
				return viol(tag("C10", "C01"), "mismatch", "GetKey(%v) = (%v, %v) but no live pair has that value (displaced pair returned?)", v, gk, ok)
			}
		}
		// every live pair is found through its value
		for _, e := range b.ref {
			gk, ok := b.a.getKey(e.v)
			if !ok || !b.sameK(gk, e.k) {
				return viol(tag("C10", "C01"), "mismatch", "GetKey(%v) = (%v, %v), reference pair is %v:%v", e.v, gk, ok, e.k, e.v)
			}
		}
		// one-to-one: Get(k)=(v,true) <=> GetKey(v)=(k,true), over the key universe
		for _, k := range s.KU {
			v, ok := b.a.get(k)
			if ok {
				k2, ok2 := b.a.getKey(v)
				if !ok2 || !b.sameK(k2, k) {
					return viol(tag("C10"), "invariant", "Get(%v) = (%v, true) but GetKey(%v) = (%v, %v)", k, v, v, k2, ok2)
				}
			}
		}
		// (values are the same when the map's own value discipline says so - the value comparator of a
		// TreeBidiMap, == for a HashBidiMap: -0 and +0 are two values under a total order on floats)
		var seenV []kvEnt[K, V]
		for _, k := range b.a.keys() {
			v, _ := b.a.get(k)
			for _, e := range seenV {
				if b.sameV(e.v, v) {
					return viol(tag("C10"), "invariant", "keys %v and %v share the value %v", e.k, k, v)
				}
			}
			seenV = append(seenV, kvEnt[K, V]{k: k, v: v})
		}
	}
	// independent walk over the exported structure
	if b.a.walk != nil {
		w := b.a.walk()
		if len(w) != n {
			return viol(tag("C01", "C07"), "invariant", "walking the exported structure finds %d bindings, reference has %d", len(w), n)
		}
		for i, e := range w {
			if !b.sameK(e.k, b.ref[i].k) || e.v != b.ref[i].v {
				return viol(tag("C01", "C02"), "invariant", "exported structure, in-order position %d holds %v:%v, reference %v:%v", i, e.k, e.v, b.ref[i].k, b.ref[i].v)
			}
		}
	}
	if b.a.shape != nil {
		if v := b.a.shape(); v != nil {
			return v
		}
	}
	if b.a.extras != nil {
		if v := b.a.extras(b); v != nil {
			return v
		}
	}
	// sorted enumeration, navigation (C02)
	if s.ordered() {
		for i := 1; i < n; i++ {
			if s.KCmp(b.ref[i-1].k, b.ref[i].k) >= 0 {
				panic("tool error: reference not strictly ascending")
			}
		}
		keys := b.a.keys()
		for i := 1; i < len(keys); i++ {
			if s.KCmp(keys[i-1], keys[i]) >= 0 {
				return viol(tag("C02"), "invariant", "Keys() not strictly ascending under the comparator: %v", keys)
			}
		}
		if s.Kind == "treebidimap" {
			vals := b.a.values()
			for i := 1; i < len(vals); i++ {
				if s.VCmp(vals[i-1], vals[i]) >= 0 {
					return viol(tag("C02"), "invariant", "Values() of TreeBidiMap not strictly ascending under the value comparator: %v", vals)
				}
			}
		}
		if b.a.iter != nil {
			if v := b.iterOrder(); v != nil {
				return v
			}
		}
		if b.a.min != nil {
			k, v, ok := b.a.min()
			if n == 0 {
				if ok {
					return viol(tag("C02"), "mismatch", "Min/Left on empty container reports an element %v", k)
				}
			} else if !ok || !b.sameK(k, b.ref[0].k) || v != b.ref[0].v {
				return viol(tag("C02"), "mismatch", "Min/Left/LeftKey = (%v, %v, %v), reference least element %v:%v", k, v, ok, b.ref[0].k, b.ref[0].v)
			}
			k, v, ok = b.a.max()
			if n == 0 {
				if ok {
					return viol(tag("C02"), "mismatch", "Max/Right on empty container reports an element %v", k)
				}
			} else if !ok || !b.sameK(k, b.ref[n-1].k) || v != b.ref[n-1].v {
				return viol(tag("C02"), "mismatch", "Max/Right/RightKey = (%v, %v, %v), reference greatest element %v:%v", k, v, ok, b.ref[n-1].k, b.ref[n-1].v)
			}
		}
		if b.a.floor != nil {
			for _, pk := range b.probes() {
				// floor: greatest element not above pk; ceiling: least element not below pk
				fi, ci := -1, -1
				for i, e := range b.ref {
					if s.KCmp(e.k, pk) <= 0 {
						fi = i
					}
					if s.KCmp(e.k, pk) >= 0 && ci < 0 {
						ci = i
					}
				}
				b.calls = 0
				k, v, ok := b.a.floor(pk)
				if vv := b.boundCheck(fmt.Sprintf("Floor(%v)", pk), n, 1); vv != nil {
					return vv
				}
				if fi < 0 {
					if ok {
						return viol(tag("C02"), "mismatch", "Floor(%v) = (%v, %v, true) but no element is <= the probe; keys %v", pk, k, v, b.refKeys())
					}
				} else if !ok || !b.sameK(k, b.ref[fi].k) || v != b.ref[fi].v {
					return viol(tag("C02"), "mismatch", "Floor(%v) = (%v, %v, %v), reference %v:%v; keys %v", pk, k, v, ok, b.ref[fi].k, b.ref[fi].v, b.refKeys())
				}
				k, v, ok = b.a.ceiling(pk)
				if ci < 0 {
					if ok {
						return viol(tag("C02"), "mismatch", "Ceiling(%v) = (%v, %v, true) but no element is >= the probe; keys %v", pk, k, v, b.refKeys())
					}
				} else if !ok || !b.sameK(k, b.ref[ci].k) || v != b.ref[ci].v {
					return viol(tag("C02"), "mismatch", "Ceiling(%v) = (%v, %v, %v), reference %v:%v; keys %v", pk, k, v, ok, b.ref[ci].k, b.ref[ci].v, b.refKeys())
				}
			}
		}
	} else if s.linked() && b.a.iter != nil {
		if v := b.iterOrder(); v != nil {
			return v
		}
	}
	// observers are pure
	if v := pureAll(b.a.opts, b.a.obj, b.Readers(), tag(mp)); v != nil {
		return v
	}
	return nil
}

// iterOrder: a full forward and a full backward iteration equal the reference sequence.
func (b *kvBox[K, V]) iterOrder() *Viol {
	pr := tag("C02")
	if b.sys.linked() {
		pr = tag("C09")
	}
	it := b.a.iter()
	exp := b.ExpSeq()
	i := 0
	for it.Next() {
		k, v := it.Cur()
		if i >= len(exp) || !b.sameK(k.(K), exp[i].A.(K)) || v.(V) != exp[i].B.(V) {
			return viol(pr, "mismatch", "forward iteration element #%d = (%v, %v), reference sequence %v", i, k, v, exp)
		}
		i++
	}
	if i != len(exp) {
		return viol(pr, "mismatch", "forward iteration yields %d elements, reference has %d", i, len(exp))
	}
	for it.Prev() {
		i--
		k, v := it.Cur()
		if i < 0 || !b.sameK(k.(K), exp[i].A.(K)) || v.(V) != exp[i].B.(V) {
			return viol(pr, "mismatch", "backward iteration element at position %d = (%v, %v), reference sequence %v", i, k, v, exp)
		}
	}
	if i != 0 {
		return viol(pr, "mismatch", "backward iteration stopped at position %d", i)
	}
	return nil
}

// ---- Box -----------------------------------------------------------------------

func (b *kvBox[K, V]) Obj() any        { return b.a.obj }
func (b *kvBox[K, V]) Opts() CanonOpts { return b.a.opts }
func (b *kvBox[K, V]) NewIter() *IterDyn {
	if b.a.setIter != nil {
		return b.a.setIter()
	}
	if b.a.iter == nil {
		return nil
	}
	return b.a.iter()
}
func (b *kvBox[K, V]) ExpSeq() []Pair {
	s := make([]Pair, len(b.ref))
	for i, e := range b.ref {
		if b.a.setIter != nil {
			s[i] = Pair{i, e.k}
		} else {
			s[i] = Pair{e.k, e.v}
		}
	}
	return s
}
func (b *kvBox[K, V]) Readers() []Reader {
	rs := []Reader{
		{"Size", func() string { return fmt.Sprint(b.a.size()) }},
		{"Empty", func() string { return fmt.Sprint(b.a.empty()) }},
		{"Keys", func() string { return b.render(fmtValsK(b.a.keys())) }},
		{"Values", func() string { return b.render(fmtValsK(b.a.values())) }},
		{"String", func() string { return b.renderStr(b.a.str()) }},
		{"ToJSON", func() string { return b.renderStr(toJSONString(b.a.obj)) }},
	}
	for _, k := range b.probes() {
		k := k
		rs = append(rs, Reader{fmt.Sprintf("Get(%v)", k), func() string { v, ok := b.a.get(k); return fmt.Sprint(v, ok) }})
		if b.a.floor != nil {
			rs = append(rs, Reader{fmt.Sprintf("Floor(%v)", k), func() string { a, v, ok := b.a.floor(k); return fmt.Sprint(a, v, ok) }})
			rs = append(rs, Reader{fmt.Sprintf("Ceiling(%v)", k), func() string { a, v, ok := b.a.ceiling(k); return fmt.Sprint(a, v, ok) }})
		}
	}
	if b.a.getKey != nil {
		for _, v := range b.sys.VU {
			v := v
			rs = append(rs, Reader{fmt.Sprintf("GetKey(%v)", v), func() string { k, ok := b.a.getKey(v); return fmt.Sprint(k, ok) }})
		}
	}
	if b.a.min != nil {
		rs = append(rs, Reader{"Min/Left", func() string { a, v, ok := b.a.min(); return fmt.Sprint(a, v, ok) }})
		rs = append(rs, Reader{"Max/Right", func() string { a, v, ok := b.a.max(); return fmt.Sprint(a, v, ok) }})
	}
	if b.a.iter != nil {
		rs = append(rs, Reader{"Iterate", func() string { return iterateAll(b.a.iter()) }})
	}
	if h, ok := b.a.obj.(interface{ Height() int }); ok {
		rs = append(rs, Reader{"Height", func() string { return fmt.Sprint(h.Height()) }})
	}
	return rs
}

// render: unordered containers give their elements in map order — sort the rendering
func (b *kvBox[K, V]) render(parts []string) string {
	if !b.sys.ordered() && !b.sys.linked() {
		sort.Strings(parts)
	}
	return strings.Join(parts, " ")
}
func (b *kvBox[K, V]) renderStr(s string) string {
	if !b.sys.ordered() && !b.sys.linked() {
		r := []rune(s)
		sort.Slice(r, func(i, j int) bool { return r[i] < r[j] })
		return string(r)
	}
	return s
}

func fmtValsK[T any](vs []T) []string {
	s := make([]string, len(vs))
	for i, v := range vs {
		s[i] = fmt.Sprint(v)
	}
	return s
}

func (b *kvBox[K, V]) Fresh() Box            { return b.sys.newBox() }
func (b *kvBox[K, V]) JSONKind() string      { return "object" }
func (b *kvBox[K, V]) Unordered() bool       { return !b.sys.ordered() && !b.sys.linked() }
func (b *kvBox[K, V]) ContainerName() string { return b.a.name }
func (b *kvBox[K, V]) Slices() []SliceObs {
	return []SliceObs{{"Keys", func() any { return b.a.keys() }}, {"Values", func() any { return b.a.values() }}}
}
func (b *kvBox[K, V]) Observe() string {
	var sb strings.Builder
	fmt.Fprintf(&sb, "size=%d empty=%v keys=%s values=%s", b.a.size(), b.a.empty(), b.render(fmtValsK(b.a.keys())), b.render(fmtValsK(b.a.values())))
	for _, k := range b.sys.KU {
		v, ok := b.a.get(k)
		fmt.Fprintf(&sb, " get(%v)=%v,%v", k, v, ok)
	}
	if b.a.iter != nil {
		sb.WriteString(" iter=" + iterateAll(b.a.iter()))
	}
	return sb.String()
}
func (b *kvBox[K, V]) LoadRef(data []byte) bool { return kvLoadRef(b, data) }
