package main

// C15: Size/Empty/Values/Keys/String agree in every state (the invariants live in
// each box's CheckState and are on in every search); here additionally: every
// reachable EMPTY state (after Clear, after removing everything, with whatever
// retained capacity) is compared with a freshly constructed container by a
// differential search: same operations, same complete observations.

import (
	"fmt"
)

func fullObs(b Box) string {
	s := b.Observe() + " | " + sortRunesIf(b.Unordered(), fmt.Sprint(b.Obj())) + " | " + sortRunesIf(b.Unordered(), toJSONString(b.Obj()))
	return s
}

func clearDiffCheck(path []Op, build func() Inst, depth int, st *Stats) *Viol {
	p := tag("C15")
	b := build().(Box)
	if b.Size() != 0 || len(path) == 0 {
		return nil
	}
	st.Nested["empty_states_compared_with_fresh"]++
	fresh := b.Fresh()
	if a, f := fullObs(b), fullObs(fresh); a != f {
		return viol(p, "mismatch", "an emptied %s is distinguishable from a fresh one:\n emptied: %s\n fresh:   %s", b.ContainerName(), a, f)
	}
	// differential continuation
	var rec func(prefix []Op, d int) *Viol
	rec = func(prefix []Op, d int) *Viol {
		// alphabet of the fresh instance after prefix
		f0 := b.Fresh()
		for _, o := range prefix {
			if v := f0.Step(o); v != nil {
				return nil
			}
		}
		for _, o := range f0.Ops() {
			inflightSeq.Add(1)
			x := build().(Box)
			y := b.Fresh()
			seq := append(append([]Op{}, prefix...), o)
			oky := true
			for _, po := range seq {
				if v := safeStep(y, po, nil); v != nil {
					oky = false // the fresh container itself misbehaves here: another property's business
					break
				}
			}
			if !oky {
				continue
			}
			for _, po := range seq {
				what := x.Describe(po)
				if v := safeStep(x, po, nil); v != nil {
					// the same operations are fine on a fresh container: the emptied one differs
					return viol(p, v.Class, "an emptied %s does not behave like a fresh one: after %v, %s fails on the emptied container (and not on a fresh one): %s", b.ContainerName(), seq, what, v.Msg)
				}
			}
			st.Nested["differential_continuations"]++
			if a, f := fullObs(x), fullObs(y); a != f {
				return viol(p, "mismatch", "after %v an emptied %s behaves differently from a fresh one:\n emptied: %s\n fresh:   %s", append(append([]Op{}, prefix...), o), b.ContainerName(), a, f)
			}
			if d > 1 {
				if v := rec(append(append([]Op{}, prefix...), o), d-1); v != nil {
					return v
				}
			}
		}
		return nil
	}
	return rec(nil, depth)
}

func init() {
	jobKinds["c15"] = func(j Job, r *JobResult) {
		s := makeSys(j.s("c", ""), j)
		depth := j.p("depth", 1)
		exploreJob(j, r, s, func(e *Explorer) {
			e.OnState = func(path []Op, build func() Inst, st *Stats) *Viol {
				return clearDiffCheck(path, build, depth, st)
			}
		})
	}
}
