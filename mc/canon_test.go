package main

import (
	"strings"
	"testing"

	"github.com/emirpasic/gods/v2/lists/arraylist"
	"github.com/emirpasic/gods/v2/trees/redblacktree"
)

type tnode struct {
	v    int
	next *tnode
}

func TestCanonIsomorphicHeapsAndCycles(t *testing.T) {
	mk := func() *tnode {
		a, b := &tnode{v: 1}, &tnode{v: 2}
		a.next, b.next = b, a // cycle
		return a
	}
	if Canon(CanonOpts{}, mk()) != Canon(CanonOpts{}, mk()) {
		t.Fatal("isomorphic heaps must have the same fingerprint")
	}
	x := mk()
	x.next.v = 3
	if Canon(CanonOpts{}, x) == Canon(CanonOpts{}, mk()) {
		t.Fatal("different heaps must differ")
	}
}

func TestCanonHiddenSlotsAndCapacity(t *testing.T) {
	a, b := arraylist.New[int](), arraylist.New[int]()
	a.Add(1, 2, 3)
	a.Remove(2) // leaves capacity and a cleared hidden slot
	b.Add(1, 2)
	if Canon(CanonOpts{}, a) == Canon(CanonOpts{}, b) {
		t.Fatal("capacity / hidden slots are part of the fingerprint of array-backed containers")
	}
	if !strings.Contains(Canon(CanonOpts{}, a), "|") {
		t.Fatalf("hidden slots not printed: %s", Canon(CanonOpts{}, a))
	}
}

func TestCanonRankRenamingAndValDropping(t *testing.T) {
	cmp := keyCmp("nat")
	mk := func(ks ...int64) *redblacktree.Tree[Key, Val] {
		tr := redblacktree.NewWith[Key, Val](cmp)
		for i, k := range ks {
			tr.Put(Key{C: Rank(k)}, Val(100+i))
		}
		return tr
	}
	// same insertion ORDER pattern, different concrete keys and values
	if Canon(CanonOpts{}, mk(10, 5, 20)) != Canon(CanonOpts{}, mk(1000, -7, 5000)) {
		t.Fatal("order-isomorphic key sets must merge")
	}
	if Canon(CanonOpts{}, mk(1, 2, 3, 4)) == Canon(CanonOpts{}, mk(4, 3, 2, 1)) {
		t.Fatal("ascending and descending insertion of four keys give mirrored, different shapes")
	}
}

func TestCanonMapsAreSorted(t *testing.T) {
	m1 := map[int]string{1: "a", 2: "b", 3: "c"}
	m2 := map[int]string{3: "c", 1: "a", 2: "b"}
	if Canon(CanonOpts{}, m1) != Canon(CanonOpts{}, m2) {
		t.Fatal("Go map iteration order must not matter")
	}
}

func TestCanonOverlapMarker(t *testing.T) {
	base := make([]int, 4, 8)
	type two struct{ a, b []int }
	v := two{base[:2], base[1:3]} // overlapping, different starts
	if !strings.Contains(Canon(CanonOpts{}, v), "!OVERLAP") {
		t.Fatal("overlapping slices must be marked")
	}
}

// The fingerprint reached by a path must not depend on whether the ranks were fixed by
// Prepare or taken as midpoints on the fly.
func TestPrepareAndDynamicRanksAgree(t *testing.T) {
	s := &KVSys[Key, Val]{Kind: "rbt", CmpN: "nat", N: 12, Rank: true,
		Fresh: func(i int) Val { return Val(i) }, KCmp: keyCmp("nat"), VCmp: func(a, b Val) int { return int(a - b) }, PropsL: kvProps}
	path := []Op{op("ins", 0), op("ins", 1), op("ins", 1), op("ins", 0), op("delAbsent", 2), op("del", 1), op("ins", 2), op("upd", 0), op("ins", 1), op("ins", 1), op("ins", 1)}
	run := func(prep bool) string {
		in := s.New()
		if prep {
			prepare(in, path, nil)
		}
		for _, o := range path {
			if v := in.Step(o); v != nil {
				t.Fatalf("step %v: %s", o, v.Msg)
			}
		}
		if v := in.CheckState(); v != nil {
			t.Fatalf("state: %s", v.Msg)
		}
		return in.Key()
	}
	if a, b := run(true), run(false); a != b {
		t.Fatalf("prepared and dynamic ranks reach different fingerprints:\n%s\n%s", a, b)
	}
}

func TestPanicOriginClassification(t *testing.T) {
	lib := "goroutine 1 [running]:\nruntime/debug.Stack()\n\tx\nmain.panicViol()\n\tx\npanic({0x1, 0x2})\n\tx\nruntime.panicmem()\n\tx\ngithub.com/emirpasic/gods/v2/lists/singlylinkedlist.(*List[...]).Insert()\n\tx\nmain.(*listBox[...]).Do()\n\tx\n"
	own := "goroutine 1 [running]:\nruntime/debug.Stack()\n\tx\nmain.panicViol()\n\tx\npanic({0x1, 0x2})\n\tx\nmain.strCmp.func1()\n\tx\nslices.insertionSortCmpFunc()\n\tx\ngithub.com/emirpasic/gods/v2/lists/arraylist.(*List[...]).Sort()\n\tx\n"
	if !panicOriginInLibrary([]byte(lib)) {
		t.Fatal("a panic raised inside library code is a violation")
	}
	if panicOriginInLibrary([]byte(own)) {
		t.Fatal("a panic raised by the checker's own comparator is a tool error")
	}
	reraised := "goroutine 1 [running]:\nruntime/debug.Stack()\n\tx\nmain.panicViol()\n\tx\npanic({0x1, 0x2})\n\tx\nmain.iterMutCheck.func2.1()\n\tx\npanic({0x1, 0x2})\n\tx\ngithub.com/emirpasic/gods/v2/lists/singlylinkedlist.(*Iterator[...]).Next(...)\n\tx\nmain.iterMutCheck.func2()\n\tx\n"
	if !panicOriginInLibrary([]byte(reraised)) {
		t.Fatal("a library panic re-raised by a handler of the checker is still a library panic")
	}
}
