package main

// HashSet, TreeSet, LinkedHashSet against a set reference (C04, C09, C13, C14).

import (
	"encoding/json"
	"fmt"
	"sort"
	"strings"

	"github.com/emirpasic/gods/v2/sets/hashset"
	"github.com/emirpasic/gods/v2/sets/linkedhashset"
	"github.com/emirpasic/gods/v2/sets/treeset"
)

type setAPI[T comparable] struct {
	obj      any
	name     string
	add      func(...T)
	remove   func(...T)
	contains func(...T) bool
	size     func() int
	empty    func() bool
	clear    func()
	values   func() []T
	str      func() string
	iter     func() *IterDyn
	inter    func(o *setAPI[T]) *setAPI[T]
	union    func(o *setAPI[T]) *setAPI[T]
	diff     func(o *setAPI[T]) *setAPI[T]
	each     func(func(int, T))
	anyF     func(func(int, T) bool) bool
	allF     func(func(int, T) bool) bool
	find     func(func(int, T) bool) (int, T)
	selectF  func(func(int, T) bool) *setAPI[T]
	mapF     func(func(int, T) T) *setAPI[T]
}

func wrapHashSet[T comparable](c *hashset.Set[T]) *setAPI[T] {
	return &setAPI[T]{obj: c, name: "HashSet", add: c.Add, remove: c.Remove, contains: c.Contains, size: c.Size, empty: c.Empty,
		clear: c.Clear, values: c.Values, str: c.String,
		inter: func(o *setAPI[T]) *setAPI[T] { return wrapHashSet(c.Intersection(o.obj.(*hashset.Set[T]))) },
		union: func(o *setAPI[T]) *setAPI[T] { return wrapHashSet(c.Union(o.obj.(*hashset.Set[T]))) },
		diff:  func(o *setAPI[T]) *setAPI[T] { return wrapHashSet(c.Difference(o.obj.(*hashset.Set[T]))) }}
}

func wrapLinkedHashSet[T comparable](c *linkedhashset.Set[T]) *setAPI[T] {
	return &setAPI[T]{obj: c, name: "LinkedHashSet", add: c.Add, remove: c.Remove, contains: c.Contains, size: c.Size, empty: c.Empty,
		clear: c.Clear, values: c.Values, str: c.String,
		iter:  func() *IterDyn { it := c.Iterator(); return idxIterRev[T](&it) },
		inter: func(o *setAPI[T]) *setAPI[T] { return wrapLinkedHashSet(c.Intersection(o.obj.(*linkedhashset.Set[T]))) },
		union: func(o *setAPI[T]) *setAPI[T] { return wrapLinkedHashSet(c.Union(o.obj.(*linkedhashset.Set[T]))) },
		diff:  func(o *setAPI[T]) *setAPI[T] { return wrapLinkedHashSet(c.Difference(o.obj.(*linkedhashset.Set[T]))) },
		each:  c.Each, anyF: c.Any, allF: c.All, find: c.Find,
		selectF: func(f func(int, T) bool) *setAPI[T] { return wrapLinkedHashSet(c.Select(f)) },
		mapF:    func(f func(int, T) T) *setAPI[T] { return wrapLinkedHashSet(c.Map(f)) }}
}

func wrapTreeSet[T comparable](c *treeset.Set[T]) *setAPI[T] {
	return &setAPI[T]{obj: c, name: "TreeSet", add: c.Add, remove: c.Remove, contains: c.Contains, size: c.Size, empty: c.Empty,
		clear: c.Clear, values: c.Values, str: c.String,
		iter:  func() *IterDyn { it := c.Iterator(); return idxIterRev[T](&it) },
		inter: func(o *setAPI[T]) *setAPI[T] { return wrapTreeSet(c.Intersection(o.obj.(*treeset.Set[T]))) },
		union: func(o *setAPI[T]) *setAPI[T] { return wrapTreeSet(c.Union(o.obj.(*treeset.Set[T]))) },
		diff:  func(o *setAPI[T]) *setAPI[T] { return wrapTreeSet(c.Difference(o.obj.(*treeset.Set[T]))) },
		each:  c.Each, anyF: c.Any, allF: c.All, find: c.Find,
		selectF: func(f func(int, T) bool) *setAPI[T] { return wrapTreeSet(c.Select(f)) },
		mapF:    func(f func(int, T) T) *setAPI[T] { return wrapTreeSet(c.Map(f)) }}
}

type SetSys[T comparable] struct {
	Kind   string // hashset | treeset | linkedhashset
	CmpN   string
	U      []T
	Absent T
	Poison T
	Cmp    func(a, b T) int // semantic comparator (TreeSet); for hash sets: identity classes
	Tuples [][]int          // argument tuples as universe indices
	// the ONE comparator func value shared by all TreeSets of this system (set
	// algebra compares comparators by code pointer)
	shared func(a, b T) int
	calls  int
	// Custom overrides construction (default constructor treeset.New[T cmp.Ordered]).
	Custom func(vals ...T) *setAPI[T]
	Label  string
	// MaxSize > 0: Add tuples are not offered once the reference has that many members (element
	// types with non-reflexive equality: every Add(NaN) is a new member)
	MaxSize int
	// Deep mode (insertion-ordered sets): members are fresh values the fingerprint drops; the
	// alphabet adds a fresh member, re-adds / removes the member at a few positions, and removes with
	// a long argument list
	Gen func(i int) T
	N   int
	// NoCtor: do not offer the variadic-constructor operations (jobs whose alphabet is reduced on purpose)
	NoCtor bool
	// NoJSON: no FromJSON operations (pointer elements: a load creates new identities)
	NoJSON bool
}

func (s *SetSys[T]) Name() string {
	if s.Kind == "treeset" {
		return s.Kind + "/" + s.CmpN + s.Label
	}
	if s.Gen != nil {
		return s.Kind + "/deep"
	}
	return s.Kind + s.Label
}
func (s *SetSys[T]) Props() []string { return []string{"C04", "C09", "C15", "C16"} }
func (s *SetSys[T]) ordered() bool   { return s.Kind == "treeset" }
func (s *SetSys[T]) linked() bool    { return s.Kind == "linkedhashset" }

func (s *SetSys[T]) newAPI(vals ...T) *setAPI[T] {
	if s.Custom != nil {
		return s.Custom(vals...)
	}
	switch s.Kind {
	case "hashset":
		return wrapHashSet(hashset.New[T](vals...))
	case "linkedhashset":
		return wrapLinkedHashSet(linkedhashset.New[T](vals...))
	case "treeset":
		if s.shared == nil {
			s.shared = s.Cmp // one func value for all TreeSets of this system, and a pure one
		}
		return wrapTreeSet(treeset.NewWith[T](s.shared, vals...))
	}
	panic("set kind " + s.Kind)
}
func (s *SetSys[T]) New() Inst          { return s.newBox() }
func (s *SetSys[T]) newBox() *setBox[T] { return &setBox[T]{sys: s, a: s.newAPI()} }

func (s *SetSys[T]) same(a, b T) bool {
	if s.Kind == "treeset" {
		return s.Cmp(a, b) == 0
	}
	return a == b
}

// defaultSetTuples: every tuple of length 0..2 over the universe plus the
// length-3 tuples (x,y,x).
func defaultSetTuples(u int) [][]int {
	ts := [][]int{{}}
	for i := 0; i < u; i++ {
		ts = append(ts, []int{i})
	}
	for i := 0; i < u; i++ {
		for j := 0; j < u; j++ {
			ts = append(ts, []int{i, j})
		}
	}
	for i := 0; i < u; i++ {
		for j := 0; j < u; j++ {
			if i != j {
				ts = append(ts, []int{i, j, i})
			}
		}
	}
	// long argument lists (17 and 33 arguments): one value repeated, the last value repeated, all values cycling
	for _, k := range []int{17, 33} {
		a, b, c := make([]int, k), make([]int, k), make([]int, k)
		for i := 0; i < k; i++ {
			a[i], b[i], c[i] = 0, u-1, i%u
		}
		ts = append(ts, a, b, c)
	}
	return ts
}

type setBox[T comparable] struct {
	sys  *SetSys[T]
	a    *setAPI[T]
	ref  []T   // members: comparator order (tree), insertion order (linked), any (hash)
	reps [][]T // admissible representatives per member class (tree, coarse comparators)
	next int   // fresh-value counter (deep mode)
}

// eqv: equality of observed values, with NaN equal to NaN (the reference's member lookup keeps
// using ==, like the containers)
func eqv[T comparable](a, b T) bool { return a == b || (a != a && b != b) }

func litePositions(max int) []int {
	seen := map[int]bool{}
	var r []int
	for _, p := range []int{0, 1, max / 2, max - 2, max - 1, max} {
		if p >= 0 && p <= max && !seen[p] {
			seen[p] = true
			r = append(r, p)
		}
	}
	return r
}

// deep alphabet: A[0] = kind-specific
func (b *setBox[T]) deepOps() []Op {
	n := len(b.ref)
	var ops []Op
	if n < b.sys.N {
		ops = append(ops, op("AddFresh", 1))
		if n+3 <= b.sys.N {
			ops = append(ops, op("AddFresh", 3))
		}
		if n+33 <= b.sys.N {
			ops = append(ops, op("AddFresh", 33))
		}
	}
	if n >= 4 {
		// ONE Remove call that takes out many members: all, every second, the first 90 %, the last 75 %,
		// all in reverse order mixed with absent values (a call that shrinks the set across whatever
		// threshold the implementation may have while arguments are still pending)
		for k := 0; k < 5; k++ {
			ops = append(ops, op("RemoveMany", k))
		}
	}
	if n > 0 {
		for _, p := range litePositions(n - 1) {
			ops = append(ops, op("AddAt", p), op("RemoveAt", p), op("RemoveLong", p))
		}
	}
	return append(ops, op("RemoveAbsent"), op("Clear"))
}

// deepArgs resolves a deep op into the argument values
func (b *setBox[T]) deepArgs(o Op) []T {
	switch o.N {
	case "AddFresh":
		vs := make([]T, o.A[0])
		for i := range vs {
			vs[i] = b.sys.Gen(b.next + 1 + i)
		}
		return vs
	case "AddAt", "RemoveAt":
		return []T{b.ref[o.A[0]]}
	case "RemoveLong": // 17 arguments: the member at the position, absent values and repetitions
		vs := make([]T, 17)
		for i := range vs {
			vs[i] = b.sys.Absent
		}
		vs[3], vs[11] = b.ref[o.A[0]], b.ref[o.A[0]]
		return vs
	case "RemoveAbsent":
		return []T{b.sys.Absent}
	case "RemoveMany":
		n := len(b.ref)
		var vs []T
		switch o.A[0] {
		case 0:
			vs = append(vs, b.ref...)
		case 1:
			for i := 0; i < n; i += 2 {
				vs = append(vs, b.ref[i])
			}
		case 2:
			vs = append(vs, b.ref[:n*9/10]...)
		case 3:
			vs = append(vs, b.ref[n/4:]...)
		default:
			for i := n - 1; i >= 0; i-- {
				vs = append(vs, b.ref[i])
				if i%3 == 0 {
					vs = append(vs, b.sys.Absent)
				}
			}
		}
		return vs
	}
	return nil
}

func (b *setBox[T]) tuple(ti int) []T {
	t := b.sys.Tuples[ti]
	vs := make([]T, len(t))
	for i, u := range t {
		vs[i] = b.sys.U[u]
	}
	return vs
}

func (b *setBox[T]) Ops() []Op {
	if b.sys.Gen != nil {
		return b.deepOps()
	}
	var ops []Op
	for ti := range b.sys.Tuples {
		if b.sys.MaxSize > 0 && len(b.ref) >= b.sys.MaxSize && len(b.sys.Tuples[ti]) > 0 {
			continue
		}
		ops = append(ops, op("Add", ti))
	}
	for ti := range b.sys.Tuples {
		ops = append(ops, op("Remove", ti))
	}
	if !b.sys.NoCtor && !b.sys.NoJSON {
		// a loaded set is a start state too: FromJSON of the arrays with repeated elements (the (x,y,x)
		// and (x,x) tuples), of [] and of null - the set must deduplicate like Add does
		for ti, t := range b.sys.Tuples {
			if (len(t) == 2 || len(t) == 3) && !(b.sys.MaxSize > 0 && len(t) > b.sys.MaxSize) {
				if _, err := json.Marshal(b.tuple(ti)); err == nil {
					ops = append(ops, op("FromJSON", ti))
				}
			}
		}
		ops = append(ops, op("FromJSON", -1), op("FromJSON", -2))
	}
	if len(b.ref) == 0 && !b.sys.NoCtor {
		// constructor forms: New(values...) for every tuple (duplicates inside the argument list included)
		for ti, t := range b.sys.Tuples {
			if len(t) > 0 && !(b.sys.MaxSize > 0 && len(t) > b.sys.MaxSize) {
				ops = append(ops, op("New", ti))
			}
		}
	}
	return append(ops, op("Clear"))
}

func (b *setBox[T]) jsonArg(ti int) []byte {
	switch ti {
	case -1:
		return []byte("[]")
	case -2:
		return []byte("null")
	}
	d, err := json.Marshal(b.tuple(ti))
	if err != nil {
		panic("tool error: set tuple is not JSON-representable: " + err.Error())
	}
	return d
}

func (b *setBox[T]) Describe(o Op) string {
	if o.N == "Clear" {
		return "Clear()"
	}
	if o.N == "New" {
		return fmt.Sprintf("replaced by New(%v...)", b.tuple(o.A[0]))
	}
	if o.N == "FromJSON" {
		return fmt.Sprintf("FromJSON(%s)", b.jsonArg(o.A[0]))
	}
	if b.sys.Gen != nil {
		nm := "Add"
		if strings.HasPrefix(o.N, "Remove") {
			nm = "Remove"
		}
		return fmt.Sprintf("%s(%v...)", nm, b.deepArgs(o))
	}
	return fmt.Sprintf("%s(%v...)", o.N, b.tuple(o.A[0]))
}

func (b *setBox[T]) Size() int   { return len(b.ref) }
func (b *setBox[T]) Key() string { return Canon(CanonOpts{}, b.a.obj) }
func (b *setBox[T]) Obs() string { return fmtVals(b.ref) }

func (b *setBox[T]) find(x T) int {
	for i, v := range b.ref {
		if b.sys.same(v, x) {
			return i
		}
	}
	return -1
}

func (b *setBox[T]) refAdd(x T) {
	if i := b.find(x); i >= 0 {
		b.reps[i] = append(append([]T{}, b.reps[i]...), x)
		return
	}
	if b.sys.ordered() {
		pos := sort.Search(len(b.ref), func(i int) bool { return b.sys.Cmp(b.ref[i], x) > 0 })
		b.ref = splice(b.ref, pos, []T{x})
		b.reps = splice(b.reps, pos, [][]T{{x}})
	} else {
		b.ref = splice(b.ref, len(b.ref), []T{x})
		b.reps = splice(b.reps, len(b.reps), [][]T{{x}})
	}
}

func (b *setBox[T]) refRemove(x T) {
	if i := b.find(x); i >= 0 {
		b.ref = append(append([]T{}, b.ref[:i]...), b.ref[i+1:]...)
		b.reps = append(append([][]T{}, b.reps[:i]...), b.reps[i+1:]...)
	}
}

// Step = Do (the operation on the real object and the reference, return values compared)
// followed by Content (the cheap observer comparison that runs on every transition).
func (b *setBox[T]) Step(o Op) *Viol {
	if v := b.Do(o); v != nil {
		return v
	}
	return b.content()
}

func (b *setBox[T]) Content() *Viol { return b.content() }

func (b *setBox[T]) Do(o Op) *Viol {
	if b.sys.Gen != nil && o.N != "Clear" {
		vs := b.deepArgs(o)
		arg := argSlice(vs)
		if strings.HasPrefix(o.N, "Add") {
			if o.N == "AddFresh" {
				b.next += len(vs)
			}
			b.a.add(arg...)
			if v := scribbleCheck(arg, b.sys.Poison, b.a.values, b.a.name, "Add"); v != nil {
				return v
			}
			for _, x := range vs {
				b.refAdd(x)
			}
		} else {
			b.a.remove(arg...)
			if v := scribbleCheck(arg, b.sys.Poison, b.a.values, b.a.name, "Remove"); v != nil {
				return v
			}
			for _, x := range vs {
				b.refRemove(x)
			}
		}
		return nil
	}
	switch o.N {
	case "Add":
		vs := b.tuple(o.A[0])
		arg := argSlice(vs)
		b.a.add(arg...)
		if v := scribbleCheck(arg, b.sys.Poison, b.a.values, b.a.name, o.N); v != nil {
			return v
		}
		for _, x := range vs {
			b.refAdd(x)
		}
	case "Remove":
		vs := b.tuple(o.A[0])
		arg := argSlice(vs)
		b.a.remove(arg...)
		if v := scribbleCheck(arg, b.sys.Poison, b.a.values, b.a.name, o.N); v != nil {
			return v
		}
		for _, x := range vs {
			b.refRemove(x)
		}
	case "Clear":
		b.a.clear()
		b.ref, b.reps = nil, nil
	case "FromJSON":
		data := b.jsonArg(o.A[0])
		if err := b.a.obj.(interface{ FromJSON([]byte) error }).FromJSON(data); err != nil {
			return viol(tag("C04", "C12"), "mismatch", "FromJSON(%s) failed: %v", data, err)
		}
		b.ref, b.reps = nil, nil
		if o.A[0] >= 0 {
			for _, x := range b.tuple(o.A[0]) {
				b.refAdd(x)
			}
		}
	case "New":
		// a set built by the VARIADIC constructor takes the place of the (empty) one: same discipline as
		// New() followed by Add(values...)
		vs := b.tuple(o.A[0])
		arg := argSlice(vs)
		b.a = b.sys.newAPI(arg...)
		if v := scribbleCheck(arg, b.sys.Poison, b.a.values, b.a.name, "New"); v != nil {
			return v
		}
		b.ref, b.reps = nil, nil
		for _, x := range vs {
			b.refAdd(x)
		}
	default:
		panic("set op " + o.N)
	}
	return nil
}

func (b *setBox[T]) content() *Viol {
	enumProp := "C04"
	if b.sys.linked() {
		enumProp = "C09"
	} else if b.sys.ordered() {
		enumProp = "C02"
	}
	if got := b.a.size(); got != len(b.ref) {
		return viol(tag("C04", "C15", enumProp), "mismatch", "Size() = %d, reference has %d distinct members %v", got, len(b.ref), b.ref)
	}
	vals := b.a.values()
	if len(vals) != len(b.ref) {
		return viol(tag("C04", "C15", enumProp), "mismatch", "len(Values()) = %d, reference has %d members", len(vals), len(b.ref))
	}
	if b.sys.ordered() || b.sys.linked() {
		pr := tag("C04", "C02")
		if b.sys.linked() {
			pr = tag("C04", "C09")
		}
		for i, m := range b.ref {
			if !b.sys.same(vals[i], m) && !eqv(vals[i], m) {
				return viol(pr, "mismatch", "Values() = %v, reference order = %v", vals, b.ref)
			}
			ok := false
			for _, r := range b.reps[i] {
				if eqv(r, vals[i]) {
					ok = true
				}
			}
			if !ok {
				return viol(tag("C04"), "mismatch", "Values()[%d] = %v was never added for this member since it became live (%v)", i, vals[i], b.reps[i])
			}
			b.ref[i] = vals[i]
		}
	} else if !sameMultiset(vals, b.ref) {
		return viol(tag("C04"), "mismatch", "Values() = %v, reference members = %v", vals, b.ref)
	}
	return nil
}

func (b *setBox[T]) CheckState() *Viol {
	if v := b.content(); v != nil {
		return v
	}
	n := len(b.ref)
	if e := b.a.empty(); e != (n == 0) {
		return viol(tag("C04", "C15"), "invariant", "Empty() = %v with %d members", e, n)
	}
	if s := b.a.str(); !strings.HasPrefix(s, b.a.name) {
		return viol(tag("C15"), "invariant", "String() = %q does not begin with %q", s, b.a.name)
	}
	// the set operations range over the internal table, every other observer over the ordering structure:
	// Union with a fresh empty set (both roles) and Difference with it must hold exactly the members
	if b.a.union != nil && b.a.diff != nil {
		e := b.sys.newAPI()
		for _, c := range []struct {
			what string
			got  []T
		}{{"Union(empty)", b.a.union(e).values()}, {"empty.Union(this)", e.union(b.a).values()}, {"Difference(empty)", b.a.diff(e).values()}} {
			if !sameMultiset(c.got, b.ref) {
				return viol(tag("C13", "C04"), "mismatch", "%s of the set with members %v = %v", c.what, b.ref, c.got)
			}
		}
	}
	// Contains for every tuple of length <= 2 over universe + absent, and the empty call
	vals := append(append([]T{}, b.sys.U...), b.sys.Absent)
	if b.sys.Gen != nil {
		vals = []T{b.sys.Absent}
		if n > 0 {
			vals = append(vals, b.ref[0], b.ref[n/2], b.ref[n-1])
		}
	}
	ts := [][]T{{}}
	for _, x := range vals {
		ts = append(ts, []T{x})
		for _, y := range vals {
			ts = append(ts, []T{x, y})
		}
	}
	for _, t := range ts {
		want := true
		for _, x := range t {
			want = want && b.find(x) >= 0
		}
		arg := argSlice(t)
		if got := b.a.contains(arg...); got != want {
			return viol(tag("C04"), "mismatch", "Contains(%v...) = %v, reference members %v say %v", t, got, b.ref, want)
		}
	}
	if n > 0 {
		// long argument lists with repetitions
		allFound := func(xs []T) bool { // by the reference's own lookup (a NaN member is never found)
			for _, x := range xs {
				if b.find(x) < 0 {
					return false
				}
			}
			return true
		}
		long := append(append([]T{}, b.ref...), b.ref...)
		if got := b.a.contains(argSlice(long)...); got != allFound(long) {
			return viol(tag("C04"), "mismatch", "Contains(every member, twice: %d arguments) = %v", len(long), got)
		}
		for _, k := range []int{9, 16, 33, 65, 130} {
			rep := make([]T, k)
			for i := range rep {
				rep[i] = b.ref[(i*7)%n]
			}
			if got := b.a.contains(argSlice(rep)...); got != allFound(rep) {
				return viol(tag("C04"), "mismatch", "Contains(%v...) = %v, members %v", rep, got, b.ref)
			}
			rep[k/2] = b.sys.Absent
			if got := b.a.contains(argSlice(rep)...); got != allFound(rep) {
				return viol(tag("C04"), "mismatch", "Contains(%v...) = %v, members %v", rep, got, b.ref)
			}
		}
	}
	if b.sys.ordered() {
		for i := 1; i < len(b.ref); i++ {
			if b.sys.Cmp(b.ref[i-1], b.ref[i]) >= 0 {
				return viol(tag("C02"), "invariant", "TreeSet Values() not strictly ascending: %v", b.ref)
			}
		}
	}
	if b.a.iter != nil {
		it := b.a.iter()
		i := 0
		for it.Next() {
			idx, v := it.Cur()
			if i >= n || idx.(int) != i || !eqv(v.(T), b.ref[i]) {
				return viol(tag("C04", "C09", "C02"), "mismatch", "iteration element #%d = (%v, %v), reference sequence %v", i, idx, v, b.ref)
			}
			i++
		}
		if i != n {
			return viol(tag("C04", "C09", "C02"), "mismatch", "iteration yields %d elements, reference has %d", i, n)
		}
	}
	return pureAll(CanonOpts{}, b.a.obj, b.Readers(), tag("C04"))
}

// ---- Box -----------------------------------------------------------------------

func (b *setBox[T]) Obj() any        { return b.a.obj }
func (b *setBox[T]) Opts() CanonOpts { return CanonOpts{} }
func (b *setBox[T]) NewIter() *IterDyn {
	if b.a.iter == nil {
		return nil
	}
	return b.a.iter()
}
func (b *setBox[T]) ExpSeq() []Pair {
	s := make([]Pair, len(b.ref))
	for i, v := range b.ref {
		s[i] = Pair{i, v}
	}
	return s
}
func (b *setBox[T]) render(vs []T) string {
	p := fmtValsK(vs)
	if b.Unordered() {
		sort.Strings(p)
	}
	return strings.Join(p, " ")
}
func (b *setBox[T]) Readers() []Reader {
	rs := []Reader{
		{"Size", func() string { return fmt.Sprint(b.a.size()) }},
		{"Empty", func() string { return fmt.Sprint(b.a.empty()) }},
		{"Values", func() string { return b.render(b.a.values()) }},
		{"String", func() string { return sortRunesIf(b.Unordered(), b.a.str()) }},
		{"ToJSON", func() string { return sortRunesIf(b.Unordered(), toJSONString(b.a.obj)) }},
		{"Contains()", func() string { return fmt.Sprint(b.a.contains()) }},
	}
	for _, x := range append(append([]T{}, b.sys.U...), b.sys.Absent) {
		x := x
		rs = append(rs, Reader{fmt.Sprintf("Contains(%v)", x), func() string { return fmt.Sprint(b.a.contains(x)) }})
	}
	if b.a.iter != nil {
		rs = append(rs, Reader{"Iterate", func() string { return iterateAll(b.a.iter()) }})
	}
	return rs
}

func sortRunesIf(c bool, s string) string {
	if !c {
		return s
	}
	r := []rune(s)
	sort.Slice(r, func(i, j int) bool { return r[i] < r[j] })
	return string(r)
}

func (b *setBox[T]) Fresh() Box {
	nb := b.sys.newBox()
	nb.next = b.next
	return nb
}
func (b *setBox[T]) JSONKind() string      { return "array" }
func (b *setBox[T]) Unordered() bool       { return b.sys.Kind == "hashset" }
func (b *setBox[T]) ContainerName() string { return b.a.name }
func (b *setBox[T]) Slices() []SliceObs {
	return []SliceObs{{"Values", func() any { return b.a.values() }}}
}
func (b *setBox[T]) Observe() string {
	s := fmt.Sprintf("size=%d empty=%v values=%s", b.a.size(), b.a.empty(), b.render(b.a.values()))
	for _, x := range b.sys.U {
		s += fmt.Sprintf(" has(%v)=%v", x, b.a.contains(x))
	}
	if b.a.iter != nil {
		s += " iter=" + iterateAll(b.a.iter())
	}
	return s
}
func (b *setBox[T]) LoadRef(data []byte) bool {
	var vs []T
	if err := json.Unmarshal(data, &vs); err != nil {
		return false
	}
	b.ref, b.reps = nil, nil
	for _, x := range vs {
		b.refAdd(x)
	}
	return true
}
