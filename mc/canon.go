package main

// Canonical state fingerprint of a live Go object graph (DESIGN.md §2.2).
//
// A generic, read-only reflective walk: pointers are numbered in first-visit
// order (isomorphic heaps get the same string, cycles terminate), slices print
// len, cap, their elements AND the hidden slots between len and cap, Go maps
// print their entries sorted, funcs print nil/non-nil.  No field name of the
// library is hard-wired.
//
// Controlled coarsenings (each argued in DESIGN.md):
//   - values of type Rank are renamed by their rank among all Rank values
//     reachable from the root (order-isomorphism abstraction, §2.3);
//   - values of type Val and Rep are dropped (data independence, §2.2 item 1);
//   - slice capacity + hidden slots are dropped for slice types selected by
//     CanonOpts.DropCap (B-tree nodes only); the walk checks that no two
//     reachable slices overlap in memory and marks the key if they do.

import (
	"fmt"
	"reflect"
	"sort"
	"strconv"
	"strings"
)

// Rank is the comparator-visible part of an abstract ordered key.
type Rank int64

// Rep distinguishes equal-comparing representatives of one comparator class.
type Rep int

// Val is an opaque payload value (fresh per Put); invisible to container code.
type Val int

var (
	rankType = reflect.TypeOf(Rank(0))
	repType  = reflect.TypeOf(Rep(0))
	valType  = reflect.TypeOf(Val(0))
)

type CanonOpts struct {
	DropCap  func(t reflect.Type) bool // slice types whose cap/hidden slots are not state
	KeepVals bool                      // print Val values instead of dropping them
}

type ptrKey struct {
	p uintptr
	t reflect.Type
}

type span struct {
	lo, hi uintptr
}

type canonizer struct {
	base   map[ptrKey]int // read-only pre-seeded pointer ids (CanonRel): printed, not followed
	opts   CanonOpts
	parts  []string // text segments; between parts[i] and parts[i+1] sits ranks[i]
	cur    *strings.Builder
	ranks  []int64
	ptrs   map[ptrKey]int
	spans  []span
	inMap  int
	nodes  int
	broken string
}

// CanonIDs is Canon that also returns the pointer numbering it assigned.
func CanonIDs(opts CanonOpts, root any) (string, map[ptrKey]int) {
	c := &canonizer{opts: opts, ptrs: map[ptrKey]int{}, cur: &strings.Builder{}}
	c.walk(reflect.ValueOf(root))
	return c.cur.String(), c.ptrs
}

// CanonRel fingerprints root relative to an already fingerprinted object graph: pointers
// (and slice backing arrays) known in ids are printed by their id and not followed.  Used for
// iterators, whose state is a few fields plus pointers into the unmodified container.
// (Rank renaming is not applied: ranks reachable only through unfollowed pointers are not printed.)
func CanonRel(opts CanonOpts, ids map[ptrKey]int, root any) string {
	c := &canonizer{opts: opts, base: ids, ptrs: map[ptrKey]int{}, cur: &strings.Builder{}}
	c.walk(reflect.ValueOf(root))
	c.parts = append(c.parts, c.cur.String())
	var out strings.Builder
	for i, p := range c.parts {
		out.WriteString(p)
		if i < len(c.ranks) {
			out.WriteString("R")
			out.WriteString(strconv.FormatInt(c.ranks[i], 10))
		}
	}
	return out.String()
}

// Canon returns the canonical string of the object graph rooted at the given values.
func Canon(opts CanonOpts, roots ...any) string {
	c := &canonizer{opts: opts, ptrs: map[ptrKey]int{}, cur: &strings.Builder{}}
	for i, r := range roots {
		if i > 0 {
			c.cur.WriteString(" || ")
		}
		c.walk(reflect.ValueOf(r))
	}
	c.parts = append(c.parts, c.cur.String())
	// rank renaming
	var out strings.Builder
	if len(c.ranks) > 0 {
		uniq := append([]int64(nil), c.ranks...)
		sort.Slice(uniq, func(i, j int) bool { return uniq[i] < uniq[j] })
		idx := map[int64]int{}
		for _, v := range uniq {
			if _, ok := idx[v]; !ok {
				idx[v] = len(idx)
			}
		}
		for i, p := range c.parts {
			out.WriteString(p)
			if i < len(c.ranks) {
				out.WriteString("r")
				out.WriteString(strconv.Itoa(idx[c.ranks[i]]))
			}
		}
	} else {
		out.WriteString(c.parts[0])
	}
	// overlap check of slice backing arrays
	if len(c.spans) > 1 {
		sort.Slice(c.spans, func(i, j int) bool { return c.spans[i].lo < c.spans[j].lo })
		for i := 1; i < len(c.spans); i++ {
			a, b := c.spans[i-1], c.spans[i]
			if b.lo < a.hi && !(a.lo == b.lo && a.hi == b.hi) {
				fmt.Fprintf(&out, " !OVERLAP[%d+%d,%d+%d]", 0, a.hi-a.lo, b.lo-a.lo, b.hi-b.lo)
			}
		}
	}
	return out.String()
}

func (c *canonizer) w(s string) { c.cur.WriteString(s) }

func (c *canonizer) emitRank(v int64) {
	c.parts = append(c.parts, c.cur.String())
	c.cur.Reset()
	c.ranks = append(c.ranks, v)
}

func (c *canonizer) walk(v reflect.Value) {
	c.nodes++
	if !v.IsValid() {
		c.w("<invalid>")
		return
	}
	t := v.Type()
	switch t {
	case rankType:
		if c.inMap > 0 {
			panic("canon: Rank inside a Go map is not supported")
		}
		c.emitRank(v.Int())
		return
	case repType:
		c.w("_")
		return
	case valType:
		if c.opts.KeepVals {
			c.w("v" + strconv.FormatInt(v.Int(), 10))
		} else {
			c.w("_")
		}
		return
	}
	switch v.Kind() {
	case reflect.Bool:
		if v.Bool() {
			c.w("T")
		} else {
			c.w("F")
		}
	case reflect.Int, reflect.Int8, reflect.Int16, reflect.Int32, reflect.Int64:
		c.w(strconv.FormatInt(v.Int(), 10))
	case reflect.Uint, reflect.Uint8, reflect.Uint16, reflect.Uint32, reflect.Uint64, reflect.Uintptr:
		c.w(strconv.FormatUint(v.Uint(), 10))
	case reflect.Float32, reflect.Float64:
		c.w(strconv.FormatFloat(v.Float(), 'g', -1, 64))
	case reflect.String:
		c.w(strconv.Quote(v.String()))
	case reflect.Func:
		if v.IsNil() {
			c.w("fn:nil")
		} else {
			c.w("fn")
		}
	case reflect.Ptr:
		if v.IsNil() {
			c.w("nil")
			return
		}
		if c.inMap > 0 {
			panic("canon: pointer inside a Go map is not supported")
		}
		k := ptrKey{v.Pointer(), t}
		if id, ok := c.base[k]; ok {
			c.w("^b" + strconv.Itoa(id))
			return
		}
		if id, ok := c.ptrs[k]; ok {
			c.w("^" + strconv.Itoa(id))
			return
		}
		id := len(c.ptrs)
		c.ptrs[k] = id
		c.w("&" + strconv.Itoa(id))
		c.walk(v.Elem())
	case reflect.Interface:
		if v.IsNil() {
			c.w("inil")
			return
		}
		e := v.Elem()
		c.w("i<" + e.Type().String() + ">")
		c.walk(e)
	case reflect.Struct:
		c.w("{")
		for i := 0; i < v.NumField(); i++ {
			if i > 0 {
				c.w(" ")
			}
			c.walk(v.Field(i))
		}
		c.w("}")
	case reflect.Array:
		c.w("[")
		for i := 0; i < v.Len(); i++ {
			if i > 0 {
				c.w(" ")
			}
			c.walk(v.Index(i))
		}
		c.w("]")
	case reflect.Slice:
		if v.IsNil() {
			c.w("snil")
			return
		}
		n, cp := v.Len(), v.Cap()
		drop := c.opts.DropCap != nil && c.opts.DropCap(t)
		if cp > 0 {
			base := v.Pointer()
			es := t.Elem().Size()
			if es > 0 {
				c.spans = append(c.spans, span{base, base + uintptr(cp)*es})
			}
			if c.inMap == 0 {
				k := ptrKey{base, t}
				if id, ok := c.base[k]; ok {
					c.w("s^b" + strconv.Itoa(id) + "[" + strconv.Itoa(n) + "]")
					return
				}
				if id, ok := c.ptrs[k]; ok {
					c.w("s^" + strconv.Itoa(id))
				} else {
					id := len(c.ptrs)
					c.ptrs[k] = id
					c.w("s&" + strconv.Itoa(id))
				}
			}
		}
		if drop {
			c.w("[" + strconv.Itoa(n) + ":")
		} else {
			c.w("[" + strconv.Itoa(n) + "/" + strconv.Itoa(cp) + ":")
		}
		for i := 0; i < n; i++ {
			c.w(" ")
			c.walk(v.Index(i))
		}
		if !drop && cp > n {
			c.w(" |")
			h := v.Slice(0, cp)
			for i := n; i < cp; i++ {
				c.w(" ")
				c.walk(h.Index(i))
			}
		}
		c.w("]")
	case reflect.Map:
		if v.IsNil() {
			c.w("mnil")
			return
		}
		c.inMap++
		ents := make([]string, 0, v.Len())
		it := v.MapRange()
		for it.Next() {
			saved := c.cur
			c.cur = &strings.Builder{}
			c.walk(it.Key())
			c.w(":")
			c.walk(it.Value())
			ents = append(ents, c.cur.String())
			c.cur = saved
		}
		c.inMap--
		sort.Strings(ents)
		c.w("m{" + strings.Join(ents, ", ") + "}")
	default:
		panic("canon: unsupported kind " + v.Kind().String() + " (" + t.String() + ")")
	}
}

// Reach collects the addresses of all mutable memory reachable from root:
// pointer targets, slice backing arrays, Go maps (funcs are skipped).
func Reach(root any) map[uintptr]string {
	out := map[uintptr]string{}
	seen := map[ptrKey]bool{}
	var walk func(v reflect.Value)
	walk = func(v reflect.Value) {
		if !v.IsValid() {
			return
		}
		switch v.Kind() {
		case reflect.Ptr:
			if v.IsNil() {
				return
			}
			k := ptrKey{v.Pointer(), v.Type()}
			if seen[k] {
				return
			}
			seen[k] = true
			if v.Type().Elem().Size() > 0 {
				out[v.Pointer()] = v.Type().String()
			}
			walk(v.Elem())
		case reflect.Interface:
			if !v.IsNil() {
				walk(v.Elem())
			}
		case reflect.Struct:
			for i := 0; i < v.NumField(); i++ {
				walk(v.Field(i))
			}
		case reflect.Array:
			for i := 0; i < v.Len(); i++ {
				walk(v.Index(i))
			}
		case reflect.Slice:
			if v.IsNil() || v.Cap() == 0 {
				return
			}
			if v.Type().Elem().Size() > 0 {
				out[v.Pointer()] = v.Type().String()
			}
			h := v.Slice(0, v.Cap())
			for i := 0; i < h.Len(); i++ {
				walk(h.Index(i))
			}
		case reflect.Map:
			if v.IsNil() {
				return
			}
			out[v.Pointer()] = v.Type().String()
			it := v.MapRange()
			for it.Next() {
				walk(it.Key())
				walk(it.Value())
			}
		}
	}
	walk(reflect.ValueOf(root))
	return out
}

// SharedMemory lists memory reachable from both a and b.
func SharedMemory(a, b any) []string {
	ra, rb := Reach(a), Reach(b)
	var sh []string
	for p, t := range ra {
		if _, ok := rb[p]; ok {
			sh = append(sh, t)
		}
	}
	sort.Strings(sh)
	return sh
}
