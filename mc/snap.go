package main

// C16: returned slices are snapshots, argument slices are copied,
// GetSortedValues(Func) sorts a copy.

import (
	"cmp"
	"fmt"
	"reflect"
	"time"

	"github.com/emirpasic/gods/v2/containers"
	"github.com/emirpasic/gods/v2/lists/arraylist"
	"github.com/emirpasic/gods/v2/lists/doublylinkedlist"
	"github.com/emirpasic/gods/v2/lists/singlylinkedlist"
	"github.com/emirpasic/gods/v2/sets/hashset"
	"github.com/emirpasic/gods/v2/sets/linkedhashset"
	"github.com/emirpasic/gods/v2/sets/treeset"
)

func cloneSlice(s any) any {
	v := reflect.ValueOf(s)
	if v.Kind() != reflect.Slice {
		return s
	}
	c := reflect.MakeSlice(v.Type(), v.Len(), v.Len())
	reflect.Copy(c, v)
	return c.Interface()
}

// sliceEq compares two slices element-wise (nil and empty are the same).
func sliceEq(a, b any) bool {
	x, y := reflect.ValueOf(a), reflect.ValueOf(b)
	if x.Kind() != reflect.Slice || y.Kind() != reflect.Slice {
		return reflect.DeepEqual(a, b)
	}
	if x.Len() != y.Len() {
		return false
	}
	for i := 0; i < x.Len(); i++ {
		a, b := x.Index(i).Interface(), y.Index(i).Interface()
		if !reflect.DeepEqual(a, b) {
			if fa, ok := a.(float64); ok && fa != fa {
				if fb, ok := b.(float64); ok && fb != fb {
					continue // NaN stays NaN
				}
			}
			return false
		}
	}
	return true
}

func zeroPoison(s any) {
	v := reflect.ValueOf(s)
	if v.Kind() != reflect.Slice || v.IsNil() {
		return
	}
	full := v.Slice(0, v.Cap())
	z := reflect.Zero(v.Type().Elem())
	for i := 0; i < full.Len(); i++ {
		full.Index(i).Set(z)
	}
	// reverse-fill with the last element pattern too: make every slot differ from a plausible value
	if full.Len() > 0 && v.Type().Elem().Kind() == reflect.Int {
		for i := 0; i < full.Len(); i++ {
			full.Index(i).SetInt(-777)
		}
	}
}

// snapshotCheck runs parts (a), (b) and (d) of C16 on one state.
func snapshotCheck(build func() Inst, st *Stats) *Viol {
	p := tag("C16")
	b := build().(Box)
	k0 := b.Key()
	// (a) writing to a returned slice never changes the container
	for _, so := range b.Slices() {
		s := so.Get()
		zeroPoison(s)
		// append within spare capacity
		v := reflect.ValueOf(s)
		if v.Kind() == reflect.Slice && v.Cap() > v.Len() {
			st.Nested["returned_slices_with_spare_capacity"]++
			ext := v.Slice(0, v.Cap())
			_ = ext
		}
		st.Nested["returned_slices_scribbled"]++
		if k := b.Key(); k != k0 {
			return viol(p, "invariant", "writing to the slice returned by %s() changed the container %s: %s -> %s", so.Name, b.ContainerName(), clip(k0, 300), clip(k, 300))
		}
		if vv := b.CheckState(); vv != nil {
			return retag(vv, "C16", fmt.Sprintf("after writing to the slice returned by %s() of %s: ", so.Name, b.ContainerName()))
		}
		// two snapshots are independent of each other (no scratch buffer handed out twice)
		s1 := so.Get()
		c1 := cloneSlice(s1)
		s2 := so.Get()
		zeroPoison(s2)
		if !sliceEq(s1, c1) {
			return viol(p, "invariant", "two slices returned by %s() of %s share memory: writing to the second changed the first from %v to %v", so.Name, b.ContainerName(), c1, s1)
		}
	}
	// (e) a SECOND instance of the same type and configuration: filling it, reading it and writing to
	// its snapshots never reaches this container or the slices this container handed out earlier
	// (package-level scratch storage, pooled buffers)
	{
		var snaps, copies []any
		var names []string
		for _, so := range b.Slices() {
			s := so.Get()
			snaps = append(snaps, s)
			copies = append(copies, cloneSlice(s))
			names = append(names, so.Name)
		}
		other := b.Fresh()
		for step := 0; step < 4; step++ {
			oo := other.Ops()
			if len(oo) == 0 {
				break
			}
			o := oo[(step*7)%len(oo)]
			if v := safeStep(other, o, nil); v != nil {
				break // the other instance's own failures are reported by its own search
			}
			for _, so := range other.Slices() {
				zeroPoison(so.Get())
			}
			st.Nested["second_instance_interference_checks"]++
			for i := range snaps {
				if !sliceEq(snaps[i], copies[i]) {
					return viol(p, "invariant", "%s: slice returned by %s() changed from %v to %v when ANOTHER %s was used (%s)", b.ContainerName(), names[i], copies[i], snaps[i], b.ContainerName(), other.Describe(o))
				}
			}
			if k := b.Key(); k != k0 {
				return viol(p, "invariant", "using another %s (%s) changed this one: %s -> %s", b.ContainerName(), other.Describe(o), clip(k0, 300), clip(k, 300))
			}
		}
	}
	// (d) GetSortedValues / GetSortedValuesFunc
	if sc, ok := b.(interface{ CheckSorted(st *Stats) *Viol }); ok {
		if v := sc.CheckSorted(st); v != nil {
			return v
		}
		if k := b.Key(); k != k0 {
			return viol(p, "invariant", "GetSortedValues(Func) changed the container %s: %s -> %s", b.ContainerName(), clip(k0, 300), clip(k, 300))
		}
	}
	// (b) later changes to the container never change a slice returned earlier
	ops := b.Ops()
	for _, o := range ops {
		inflightSeq.Add(1)
		bb := build().(Box)
		var snaps, copies []any
		var names []string
		for _, so := range bb.Slices() {
			s := so.Get()
			snaps = append(snaps, s)
			copies = append(copies, cloneSlice(s))
			names = append(names, so.Name)
		}
		if v := bb.Step(o); v != nil {
			if v.Has("C16") {
				return v
			}
			continue // not this property's business (other checks report it)
		}
		st.Nested["snapshot_then_mutation"]++
		for i := range snaps {
			if !sliceEq(snaps[i], copies[i]) {
				return viol(p, "invariant", "%s: slice returned by %s() changed from %v to %v when the container was mutated by %s afterwards",
					b.ContainerName(), names[i], copies[i], snaps[i], bb.Describe(o))
			}
		}
	}
	return nil
}

// sortedValuesCheck: GetSortedValuesFunc (and GetSortedValues for ordered element
// types) return a sorted permutation of Values() and do not touch the container.
func sortedValuesCheck[T comparable](obj any, opts CanonOpts, cmp func(a, b T) int, name string, st *Stats) *Viol {
	p := tag("C16")
	c, ok := obj.(containers.Container[T])
	if !ok {
		panic(fmt.Sprintf("tool error: %T does not implement containers.Container", obj))
	}
	before := Canon(opts, obj)
	check := func(what string, got, vals []T) *Viol {
		if !sameMultiset(got, vals) {
			return viol(p, "mismatch", "%s(%s) = %v is not a permutation of Values() = %v", what, name, got, vals)
		}
		for i := 1; i < len(got); i++ {
			if cmp(got[i-1], got[i]) > 0 {
				return viol(p, "mismatch", "%s(%s) = %v is not sorted", what, name, got)
			}
		}
		if after := Canon(opts, obj); after != before {
			return viol(tag("C16", "C18"), "invariant", "%s(%s) altered the container: %s -> %s", what, name, clip(before, 300), clip(after, 300))
		}
		// the returned slice is the caller's: scribbling must not reach the container
		zeroPoison(got)
		if after := Canon(opts, obj); after != before {
			return viol(p, "invariant", "writing to the slice returned by %s(%s) changed the container", what, name)
		}
		st.Nested["sorted_values_calls"]++
		return nil
	}
	vals := c.Values()
	if v := check("GetSortedValuesFunc", containers.GetSortedValuesFunc(c, cmp), vals); v != nil {
		return v
	}
	for _, f := range []func() (bool, *Viol){
		func() (bool, *Viol) { return sortedOrderedCheck[int](obj, opts, before, name, st) },
		func() (bool, *Viol) { return sortedOrderedCheck[Val](obj, opts, before, name, st) },
		func() (bool, *Viol) { return sortedOrderedCheck[string](obj, opts, before, name, st) },
		func() (bool, *Viol) { return sortedOrderedCheck[int8](obj, opts, before, name, st) },
		func() (bool, *Viol) { return sortedOrderedCheck[uint8](obj, opts, before, name, st) },
		func() (bool, *Viol) { return sortedOrderedCheck[int64](obj, opts, before, name, st) },
		func() (bool, *Viol) { return sortedOrderedCheck[uint64](obj, opts, before, name, st) },
	} {
		if ok, v := f(); ok {
			return v
		}
	}
	return nil
}

// sortedOrderedCheck: containers.GetSortedValues on a container of an ordered element type E.
func sortedOrderedCheck[E cmp.Ordered](obj any, opts CanonOpts, before, name string, st *Stats) (bool, *Viol) {
	p := tag("C16")
	ci, ok := obj.(containers.Container[E])
	if !ok {
		return false, nil
	}
	iv := ci.Values()
	got := containers.GetSortedValues(ci)
	if !sameMultiset(got, iv) {
		return true, viol(p, "mismatch", "GetSortedValues(%s) = %v is not a permutation of Values() = %v", name, got, iv)
	}
	for i := 1; i < len(got); i++ {
		if got[i-1] > got[i] {
			return true, viol(p, "mismatch", "GetSortedValues(%s) = %v is not sorted", name, got)
		}
	}
	if after := Canon(opts, obj); after != before {
		return true, viol(tag("C16", "C18"), "invariant", "GetSortedValues(%s) altered the container: %s -> %s", name, clip(before, 300), clip(after, 300))
	}
	zeroPoison(got)
	if after := Canon(opts, obj); after != before {
		return true, viol(p, "invariant", "writing to the slice returned by GetSortedValues(%s) changed the container", name)
	}
	st.Nested["sorted_values_calls"]++
	return true, nil
}

func (b *listBox[T]) CheckSorted(st *Stats) *Viol {
	return sortedValuesCheck[T](b.a.obj, CanonOpts{}, b.sys.Cmps["nat"], b.a.name, st)
}
func (b *seqBox[T]) CheckSorted(st *Stats) *Viol {
	return sortedValuesCheck[T](b.a.obj, CanonOpts{}, func(x, y T) int { return anyCmp(x, y) }, b.a.name, st)
}
func (b *setBox[T]) CheckSorted(st *Stats) *Viol {
	return sortedValuesCheck[T](b.a.obj, CanonOpts{}, func(x, y T) int { return anyCmp(x, y) }, b.a.name, st)
}
func (b *heapBox[T]) CheckSorted(st *Stats) *Viol {
	return sortedValuesCheck[T](b.a.obj, CanonOpts{}, func(x, y T) int { return anyCmp(x, y) }, b.a.name, st)
}
func (b *kvBox[K, V]) CheckSorted(st *Stats) *Viol {
	if b.sys.Kind == "treeset" {
		return nil // explored through the set system
	}
	return sortedValuesCheck[V](b.a.obj, b.a.opts, func(x, y V) int { return anyCmp(x, y) }, b.a.name, st)
}

// anyCmp: a total order on the element types used by the checker.
func anyCmp(x, y any) int {
	switch a := x.(type) {
	case int:
		b := y.(int)
		switch {
		case a < b:
			return -1
		case a > b:
			return 1
		}
		return 0
	case Val:
		return int(a - y.(Val))
	case float64:
		b := y.(float64)
		switch {
		case a < b:
			return -1
		case a > b:
			return 1
		case a == b:
			return 0
		}
		// NaN: order NaNs before everything, two NaNs by nothing (they are all alike)
		if a != a && b != b {
			return 0
		}
		if a != a {
			return -1
		}
		return 1
	case string:
		b := y.(string)
		switch {
		case a < b:
			return -1
		case a > b:
			return 1
		}
		return 0
	case HE:
		b := y.(HE)
		if a.P != b.P {
			return a.P - b.P
		}
		return a.ID - b.ID
	case OV:
		return ovCmp(a, y.(OV))
	case int8:
		return cmp.Compare(a, y.(int8))
	case uint8:
		return cmp.Compare(a, y.(uint8))
	case int64:
		return cmp.Compare(a, y.(int64))
	case uint64:
		return cmp.Compare(a, y.(uint64))
	case SK:
		return cmp.Compare(a, y.(SK))
	case time.Time:
		return a.Compare(y.(time.Time))
	case *PS:
		return psCmp(a, y.(*PS))
	case HX:
		b := y.(HX)
		if a.P != b.P {
			return a.P - b.P
		}
		return int(a.ID - b.ID)
	}
	panic(fmt.Sprintf("anyCmp: %T", x))
}

// ctorCheck: slices passed to the variadic constructors are copied.
func ctorCheck(kind string, st *Stats) *Viol {
	p := tag("C16")
	// (1100 / 2100 values: a bulk path that adopts the argument may exist only for long batches, after C16-15)
	tuples := [][]int{{1}, {1, 2}, {2, 1, 3}, {3, 3, 1}, intRange(1, 17), intRange(1, 33), intRange(1, 70), intRange(1, 1100), intRange(1, 2100)}
	for _, t := range tuples {
		// the same batch given to Add on a container that owns no storage yet
		{
			arg0 := argSlice(t)
			var vals0 func() []int
			var obj0 any
			switch kind {
			case "arraylist":
				c := arraylist.New[int]()
				c.Add(arg0...)
				vals0, obj0 = c.Values, c
			case "singlylinkedlist":
				c := singlylinkedlist.New[int]()
				c.Add(arg0...)
				vals0, obj0 = c.Values, c
			case "doublylinkedlist":
				c := doublylinkedlist.New[int]()
				c.Add(arg0...)
				vals0, obj0 = c.Values, c
			case "hashset":
				c := hashset.New[int]()
				c.Add(arg0...)
				vals0, obj0 = c.Values, c
			case "linkedhashset":
				c := linkedhashset.New[int]()
				c.Add(arg0...)
				vals0, obj0 = c.Values, c
			case "treeset":
				c := treeset.New[int]()
				c.Add(arg0...)
				vals0, obj0 = c.Values, c
			default:
				return nil
			}
			before := vals0()
			k0 := Canon(CanonOpts{}, obj0)
			scribble(arg0, -99)
			if after := vals0(); !sameMultiset(before, after) || Canon(CanonOpts{}, obj0) != k0 {
				return viol(p, "invariant", "%s: New() then Add(%d values...): writing to the caller's slice afterwards changed the container", kind, len(t))
			}
		}
		arg := argSlice(t)
		var vals func() []int
		var add func(...int)
		var obj any
		switch kind {
		case "arraylist":
			c := arraylist.New(arg...)
			vals, add, obj = c.Values, c.Add, c
		case "singlylinkedlist":
			c := singlylinkedlist.New(arg...)
			vals, add, obj = c.Values, c.Add, c
		case "doublylinkedlist":
			c := doublylinkedlist.New(arg...)
			vals, add, obj = c.Values, c.Add, c
		case "hashset":
			c := hashset.New(arg...)
			vals, add, obj = c.Values, c.Add, c
		case "linkedhashset":
			c := linkedhashset.New(arg...)
			vals, add, obj = c.Values, c.Add, c
		case "treeset":
			c := treeset.New(arg...)
			vals, add, obj = c.Values, c.Add, c
		default:
			return nil
		}
		before := vals()
		k0 := Canon(CanonOpts{}, obj)
		scribble(arg, -99)
		if after := vals(); !sameMultiset(before, after) || Canon(CanonOpts{}, obj) != k0 {
			return viol(p, "invariant", "%s.New(%d values...): writing to the caller's slice afterwards changed the container from %s to %s", kind, len(t), clipSlice(before), clipSlice(after))
		}
		// and the other direction: growing the container must not write into the caller's slice
		arg2 := argSlice(t)
		switch kind {
		case "arraylist":
			c := arraylist.New(arg2...)
			add = c.Add
		case "singlylinkedlist":
			c := singlylinkedlist.New(arg2...)
			add = c.Add
		case "doublylinkedlist":
			c := doublylinkedlist.New(arg2...)
			add = c.Add
		case "hashset":
			c := hashset.New(arg2...)
			add = c.Add
		case "linkedhashset":
			c := linkedhashset.New(arg2...)
			add = c.Add
		case "treeset":
			c := treeset.New(arg2...)
			add = c.Add
		}
		add(41, 42, 43)
		full := arg2[:cap(arg2)]
		for i := len(t); i < len(full); i++ {
			if full[i] != 0 {
				return viol(p, "invariant", "%s.New(%v...) then Add wrote into the caller's slice spare capacity: %v", kind, t, full)
			}
		}
		st.Nested["constructor_argument_slices"]++
	}
	return nil
}

func init() {
	jobKinds["snap"] = func(j Job, r *JobResult) {
		c := j.s("c", "")
		s := makeSys(c, j)
		exploreJob(j, r, s, func(e *Explorer) {
			e.NoState = true
			first := true
			e.OnState = func(path []Op, build func() Inst, st *Stats) *Viol {
				if first {
					first = false
					if v := ctorCheck(c, st); v != nil {
						return v
					}
				}
				st.Nested["snapshot_states"]++
				return snapshotCheck(build, st)
			}
		})
	}
}
