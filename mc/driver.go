package main

// Driver / worker split (DESIGN.md §2.5): every job is one single-threaded
// exploration in its own worker process, so that fatal runtime errors (stack
// overflow, concurrent map access) and process-wide fd redirection are
// attributable.  The driver merges the workers' counts into the evidence file.

import (
	"encoding/json"
	"fmt"
	"os"
	"os/exec"
	"path/filepath"
	"runtime"
	"runtime/debug"
	"sort"
	"strconv"
	"strings"
	"sync"
	"time"
)

type ReplaySpec struct {
	Path []Op            `json:"path"`
	Last *Op             `json:"last,omitempty"`
	Aux  json.RawMessage `json:"aux,omitempty"`
}

type Job struct {
	ID        string            `json:"id"`
	Prop      string            `json:"prop"`
	Kind      string            `json:"kind"`
	Tier      string            `json:"tier"`
	P         map[string]int    `json:"p,omitempty"`
	S         map[string]string `json:"s,omitempty"`
	DeadlineS int               `json:"deadline_s,omitempty"`
	Replay    *ReplaySpec       `json:"replay,omitempty"`
	Weight    int               `json:"weight,omitempty"` // scheduling hint: heavier first
}

func (j Job) p(k string, def int) int {
	if v, ok := j.P[k]; ok {
		return v
	}
	return def
}
func (j Job) s(k, def string) string {
	if v, ok := j.S[k]; ok {
		return v
	}
	return def
}

type JobResult struct {
	Job    Job             `json:"job"`
	St     Stats           `json:"stats"`
	Found  *Found          `json:"found,omitempty"`
	Aux    json.RawMessage `json:"aux,omitempty"`
	WallS  float64         `json:"wall_s"`
	Abort  string          `json:"abort,omitempty"`
	Notes  []string        `json:"notes,omitempty"`
	Binary string          `json:"binary,omitempty"`
}

// kind registry: a job kind fills the result.
var jobKinds = map[string]func(j Job, r *JobResult){}

// exploreJob is the common shape: explore Sys with a configuration hook.
func exploreJob(j Job, r *JobResult, s Sys, conf func(e *Explorer)) {
	e := &Explorer{Sys: s, Want: j.Prop, OutGuard: j.Prop == "C17", Beyond: true}
	if j.DeadlineS > 0 {
		e.Deadline = time.Now().Add(time.Duration(j.DeadlineS) * time.Second)
	}
	if conf != nil {
		conf(e)
	}
	if j.Replay != nil {
		// the only nondeterminism the library has is Go map iteration order: a violation that
		// depends on it reproduces with some probability, so a replay repeats the trace
		tries := j.p("replaytries", 64)
		for t := 1; t <= tries && r.Found == nil; t++ {
			r.Found = e.ReplayOne(j.Replay.Path, j.Replay.Last)
			if r.Found != nil {
				r.Notes = append(r.Notes, fmt.Sprintf("reproduced at attempt %d of at most %d", t, tries))
			}
		}
	} else {
		r.Found = e.Run()
	}
	r.St = e.St
}

// ---------------------------------------------------------------- worker ----

func workerMain(args []string) int {
	var jobFile, outPath, journal, stdPath string
	for i := 0; i+1 < len(args); i += 2 {
		switch args[i] {
		case "-job":
			jobFile = args[i+1]
		case "-out":
			outPath = args[i+1]
		case "-journal":
			journal = args[i+1]
		case "-std":
			stdPath = args[i+1]
		}
	}
	var j Job
	b, err := os.ReadFile(jobFile)
	if err != nil {
		fmt.Fprintln(os.Stderr, "worker: ", err)
		return 3
	}
	if err := json.Unmarshal(b, &j); err != nil {
		fmt.Fprintln(os.Stderr, "worker: ", err)
		return 3
	}
	if stdPath != "" {
		if err := redirectStd(stdPath); err != nil {
			fmt.Fprintln(os.Stderr, "worker: redirect:", err)
			return 3
		}
	}
	if journal != "" {
		journalOpen(journal)
		debug.SetMaxStack(64 << 20)
	}
	intUniverseMode = j.s("intset", "")
	res := &JobResult{Job: j}
	write := func() {
		b, _ := json.Marshal(res)
		tmp := outPath + ".tmp"
		os.WriteFile(tmp, b, 0o644)
		os.Rename(tmp, outPath)
	}
	start := time.Now()
	startMonitor(60*time.Second, 4<<30, func(class, what string) {
		res.Abort = class + ": " + what
		res.WallS = time.Since(start).Seconds()
		write()
		os.Exit(4)
	})
	f, ok := jobKinds[j.Kind]
	if !ok {
		diag("worker: unknown job kind %q", j.Kind)
		return 3
	}
	func() {
		defer func() {
			if rec := recover(); rec != nil {
				res.Abort = fmt.Sprintf("tool-panic: %v\n%s", rec, debug.Stack())
			}
		}()
		f(j, res)
	}()
	res.WallS = time.Since(start).Seconds()
	write()
	if strings.HasPrefix(res.Abort, "tool-panic") {
		diag("%s", res.Abort)
		return 5
	}
	return 0
}

// ---------------------------------------------------------------- driver ----

var (
	verifDir = envOr("VERIF_DIR", "/verif")
	workDir  = envOr("VERIF_WORKDIR", filepath.Join(verifDir, "work")) // check.sh gives every invocation its own
)

func envOr(k, d string) string {
	if v := os.Getenv(k); v != "" {
		return v
	}
	return d
}

type runOut struct {
	res      *JobResult
	exit     int
	stderr   string
	crashed  bool
	duration time.Duration
}

func exeFor(j Job) string {
	self, _ := os.Executable()
	if j.S["binary"] == "race" {
		return filepath.Join(filepath.Dir(self), "vmc-race")
	}
	if coverDir != "" {
		return filepath.Join(filepath.Dir(self), "vmc-cover")
	}
	return self
}

// coverDir: when set (VERIF_COVERDIR), plain-binary workers run the -cover build and
// write their counters there; the driver reports statement coverage of the property's
// anchored files in the evidence (a vacuity alarm, not an oracle).
var coverDir = os.Getenv("VERIF_COVERDIR")

func statementCoverage(prop string) map[string]any {
	if coverDir == "" {
		return nil
	}
	out := filepath.Join(coverDir, "cov.txt")
	cmd := exec.Command("go", "tool", "covdata", "textfmt", "-i="+coverDir, "-o="+out)
	if b, err := cmd.CombinedOutput(); err != nil {
		return map[string]any{"error": fmt.Sprintf("%v: %s", err, clip(string(b), 300))}
	}
	data, err := os.ReadFile(out)
	if err != nil {
		return map[string]any{"error": err.Error()}
	}
	type agg struct{ total, covered int }
	files := map[string]*agg{}
	seen := map[string]int{} // block -> max count
	stm := map[string]int{}
	for _, line := range strings.Split(string(data), "\n") {
		// file:sl.sc,el.ec numStmts count
		parts := strings.Fields(line)
		if len(parts) != 3 || !strings.Contains(parts[0], ":") {
			continue
		}
		n, _ := strconv.Atoi(parts[1])
		c, _ := strconv.Atoi(parts[2])
		stm[parts[0]] = n
		if c > seen[parts[0]] {
			seen[parts[0]] = c
		} else if _, ok := seen[parts[0]]; !ok {
			seen[parts[0]] = 0
		}
	}
	for blk, n := range stm {
		f := blk[:strings.LastIndex(blk, ":")]
		a := files[f]
		if a == nil {
			a = &agg{}
			files[f] = a
		}
		a.total += n
		if seen[blk] > 0 {
			a.covered += n
		}
	}
	// anchored files of this property
	anchors := map[string]bool{}
	if pb, err := os.ReadFile(filepath.Join(verifDir, "properties.jsonl")); err == nil {
		for _, l := range strings.Split(string(pb), "\n") {
			var p struct {
				ID      string `json:"id"`
				Anchors struct {
					Files []string `json:"files"`
				} `json:"anchors"`
			}
			if json.Unmarshal([]byte(l), &p) == nil && p.ID == prop {
				for _, f := range p.Anchors.Files {
					anchors[f] = true
				}
			}
		}
	}
	res := map[string]any{}
	tot, cov := 0, 0
	for f, a := range files {
		const pfx = "github.com/emirpasic/gods/v2/"
		if !strings.HasPrefix(f, pfx) {
			continue
		}
		rel := strings.TrimPrefix(f, pfx)
		if !anchors[rel] {
			continue
		}
		res[rel] = fmt.Sprintf("%d/%d statements (%.1f%%)", a.covered, a.total, 100*float64(a.covered)/float64(max(1, a.total)))
		tot += a.total
		cov += a.covered
	}
	res["_anchored_files_total"] = fmt.Sprintf("%d/%d statements (%.1f%%)", cov, tot, 100*float64(cov)/float64(max(1, tot)))
	return res
}

func runWorker(j Job, journal bool, tag string) runOut {
	os.MkdirAll(workDir, 0o755)
	base := filepath.Join(workDir, sanitize(j.ID)+tag)
	jb, _ := json.Marshal(j)
	os.WriteFile(base+".job.json", jb, 0o644)
	os.Remove(base + ".out.json")
	args := []string{"worker", "-job", base + ".job.json", "-out", base + ".out.json", "-std", base + ".std"}
	if journal {
		args = append(args, "-journal", base+".journal")
	}
	cmd := exec.Command(exeFor(j), args...)
	var errb strings.Builder
	cmd.Stderr = &errb
	cmd.Stdout = &errb
	cmd.Env = append(os.Environ(), "GOMAXPROCS="+strconv.Itoa(j.p("gomaxprocs", 2)), "GOTRACEBACK=single")
	if coverDir != "" && j.S["binary"] != "race" {
		cmd.Env = append(cmd.Env, "GOCOVERDIR="+coverDir)
	}
	if j.S["binary"] == "race" {
		cmd.Env = append(cmd.Env, "GORACE=halt_on_error=0 history_size=4")
	}
	t0 := time.Now()
	err := cmd.Start()
	if err != nil {
		return runOut{exit: 99, stderr: err.Error(), crashed: true}
	}
	done := make(chan error, 1)
	go func() { done <- cmd.Wait() }()
	limit := time.Duration(j.DeadlineS+900) * time.Second
	select {
	case err = <-done:
	case <-time.After(limit):
		cmd.Process.Kill()
		err = <-done
		errb.WriteString("\n[driver] killed after " + limit.String())
	}
	out := runOut{duration: time.Since(t0), stderr: errb.String()}
	if err != nil {
		if ee, ok := err.(*exec.ExitError); ok {
			out.exit = ee.ExitCode()
		} else {
			out.exit = 98
		}
	}
	if b, e := os.ReadFile(base + ".out.json"); e == nil {
		var r JobResult
		if json.Unmarshal(b, &r) == nil {
			out.res = &r
		}
	}
	if out.res == nil {
		out.crashed = true
	}
	return out
}

func sanitize(s string) string {
	r := strings.NewReplacer("/", "_", " ", "_", ":", "_", "[", "", "]", "", ",", "-")
	return r.Replace(s)
}

func lastJournalLine(j Job, tag string) string {
	base := filepath.Join(workDir, sanitize(j.ID)+tag)
	b, err := os.ReadFile(base + ".journal")
	if err != nil {
		return ""
	}
	lines := strings.Split(strings.TrimSpace(string(b)), "\n")
	if len(lines) == 0 {
		return ""
	}
	return lines[len(lines)-1]
}

type KnownFinding struct {
	Status   string `json:"status"` // open | fixed
	Property string `json:"property"`
	Sig      string `json:"sig"`
	What     string `json:"what"`
	Commit   string `json:"commit,omitempty"`
}

func loadKnown() []KnownFinding {
	var k struct {
		Findings []KnownFinding `json:"findings"`
	}
	b, err := os.ReadFile(filepath.Join(verifDir, "known_findings.json"))
	if err != nil {
		return nil
	}
	json.Unmarshal(b, &k)
	return k.Findings
}

func sigOf(r *JobResult) string {
	if r.Found == nil || r.Found.V == nil {
		return ""
	}
	if r.Found.V.Sig != "" {
		return r.Found.V.Sig
	}
	last := "state"
	if r.Found.Last != nil {
		last = r.Found.Last.N
	}
	return r.Job.Kind + "/" + r.Job.s("c", "") + "|" + r.Found.V.Class + "|" + last
}

func checkMain(prop, tier string) int {
	t0 := time.Now()
	seed, _ := strconv.Atoi(os.Getenv("VERIF_SEED"))
	jobs := jobsFor(prop, tier)
	if len(jobs) == 0 {
		fmt.Fprintf(os.Stderr, "no jobs registered for %s/%s\n", prop, tier)
		return 2
	}
	if only := os.Getenv("VERIF_ONLY"); only != "" { // debugging aid: substring filter on job ids
		var f []Job
		for _, j := range jobs {
			if strings.Contains(j.ID, only) {
				f = append(f, j)
			}
		}
		jobs = f
	}
	sort.SliceStable(jobs, func(a, b int) bool { return jobs[a].Weight > jobs[b].Weight })
	par := runtime.NumCPU()
	if v, _ := strconv.Atoi(os.Getenv("VERIF_PAR")); v > 0 {
		par = v
	}
	results := make([]runOut, len(jobs))
	var wg sync.WaitGroup
	sem := make(chan struct{}, par)
	for i := range jobs {
		wg.Add(1)
		go func(i int) {
			defer wg.Done()
			w := jobs[i].p("cores", 1)
			for k := 0; k < w; k++ {
				sem <- struct{}{}
			}
			results[i] = runWorker(jobs[i], false, "")
			for k := 0; k < w; k++ {
				<-sem
			}
		}(i)
	}
	wg.Wait()

	known := loadKnown()
	exit := 0
	var violations, knownHits, toolErrors int
	var jobSummaries []any
	total := Stats{PerSize: map[int]int{}, Nested: map[string]int{}, OpsHistogram: map[string]int{}, Exhaustive: true}
	var samples []any
	var violLines []string
	for i, ro := range results {
		j := jobs[i]
		if ro.crashed || (ro.res != nil && strings.HasPrefix(ro.res.Abort, "tool-panic")) {
			// fatal runtime error or tool failure: attribute by journal
			if ro.res != nil && strings.HasPrefix(ro.res.Abort, "tool-panic") {
				toolErrors++
				fmt.Fprintf(os.Stderr, "TOOL-ERROR job=%s %s\n", j.ID, clip(ro.res.Abort, 2000))
				continue
			}
			r2 := runWorker(j, true, ".j1")
			l1 := lastJournalLine(j, ".j1")
			if !r2.crashed {
				// the same job ran to completion in journal mode: the first death was transient
				// (e.g. the process was killed from outside under memory pressure); the complete
				// run is what is reported, with a note
				fmt.Fprintf(os.Stderr, "NOTE job=%s first worker died (exit %d); the journal re-run completed and is used\n", j.ID, ro.exit)
				r2.res.Notes = append(r2.res.Notes, fmt.Sprintf("first worker process died (exit %d) without result; this is the complete journal-mode re-run", ro.exit))
				ro = r2
				results[i] = ro
			} else {
				r3 := runWorker(j, true, ".j2")
				l2 := lastJournalLine(j, ".j2")
				_ = r3
				if l1 != "" && l1 == l2 {
					fr := &JobResult{Job: j, Found: &Found{V: &Viol{Props: []string{prop, "C17"}, Class: "fatal",
						Msg: "worker process died with a fatal runtime error while executing: " + l1 + "\n" + clip(tailLines(r2.stderr, 12), 1500)}}}
					ro.res = fr
					results[i] = ro
				} else {
					toolErrors++
					fmt.Fprintf(os.Stderr, "TOOL-ERROR job=%s worker died, journal attribution unstable (%q vs %q); stderr: %s\n", j.ID, l1, l2, clip(ro.stderr, 1500))
					continue
				}
			}
		}
		r := ro.res
		if r.Abort != "" && r.Found == nil {
			// hang / memory: the call in flight is the violation
			cls := strings.SplitN(r.Abort, ":", 2)[0]
			r.Found = &Found{V: &Viol{Props: []string{prop, "C17"}, Class: cls, Msg: "call did not return within the liveness horizon / heap ceiling: " + r.Abort}}
		}
		addStats(&total, &r.St)
		if len(samples) < 6 {
			for _, s := range r.St.Samples {
				if len(samples) < 6 {
					samples = append(samples, s)
				}
			}
		}
		js := map[string]any{"job": j.ID, "kind": j.Kind, "bounds": j.P, "config": j.S, "states": r.St.States, "transitions": r.St.Transitions,
			"exhaustive": r.St.Exhaustive, "max_depth": r.St.MaxDepth, "wall_s": round2(r.WallS),
			"states_per_size": r.St.PerSize, "distinct_observations": r.St.DistinctObs}
		if r.St.Cap != "" {
			js["cap_hit"] = r.St.Cap
		}
		if len(r.St.Nested) > 0 {
			js["nested"] = r.St.Nested
		}
		if len(r.Notes) > 0 {
			js["notes"] = r.Notes
		}
		if r.Found != nil && r.Found.V.Has(prop) {
			// confirm in a fresh process
			repro := 0
			const tries = 2
			if r.Found.V.Class == "fatal" || r.Found.V.Class == "hang" || r.Found.V.Class == "memory" {
				repro = tries // already reproduced via journal runs / not cheaply repeatable
			} else {
				for t := 0; t < tries; t++ {
					rj := j
					rj.Replay = &ReplaySpec{Path: r.Found.Path, Last: r.Found.Last, Aux: r.Aux}
					rj.ID = j.ID + ".replay" + strconv.Itoa(t)
					rr := runWorker(rj, false, "")
					if rr.res != nil && rr.res.Found != nil && rr.res.Found.V.Has(prop) {
						repro++
					} else if rr.crashed {
						repro++ // died again on the same trace
					}
				}
			}
			js["violation"] = r.Found.V.Msg
			js["reproduced"] = fmt.Sprintf("%d/%d", repro, tries)
			if repro == 0 {
				toolErrors++
				fmt.Fprintf(os.Stderr, "TOOL-ERROR job=%s violation did not reproduce in a fresh process: %s\n", j.ID, clip(r.Found.V.Msg, 600))
			} else {
				sig := sigOf(r)
				listed := false
				for _, k := range known {
					if k.Status == "open" && k.Property == prop && k.Sig == sig {
						listed = true
						fmt.Printf("KNOWN-FINDING: property=%s %s\n", prop, k.What)
						knownHits++
					}
				}
				if !listed {
					violations++
					path := writeReplay(prop, j, r, sig)
					violLines = append(violLines, fmt.Sprintf("VIOLATION property=%s replay=%s", prop, path))
					fmt.Fprintf(os.Stderr, "---- %s job=%s class=%s\n%s\ntrace:\n  %s\n", prop, j.ID, r.Found.V.Class, clip(r.Found.V.Msg, 1500), strings.Join(r.Found.Calls, "\n  "))
					exit = 1
				}
			}
		}
		if !r.St.Exhaustive {
			total.Exhaustive = false
		}
		jobSummaries = append(jobSummaries, js)
	}
	if toolErrors > 0 && exit == 0 {
		exit = 2
	}
	if len(samples) == 0 {
		samples = append(samples, "no sample recorded")
	}
	ev := map[string]any{
		"property_id": prop, "tier": tier, "seed": seed, "level": "model_checking",
		"wall_s":      round2(time.Since(t0).Seconds()),
		"violations":  violations,
		"assumptions": assumptionsFor(prop),
		"coverage": map[string]any{
			"states": total.States, "transitions": total.Transitions,
			"traces_validated_against_impl": total.Transitions,
			"samples":                       samples,
			"exhaustive":                    total.Exhaustive && toolErrors == 0,
			"explanation":                   explanationFor(prop),
			"transitions_changing_state":    total.Changing,
			"transitions_noop":              total.Noop,
			"real_calls_replayed":           total.Replayed,
			"prefix_determinism_checks":     total.PrefixChecks,
			"distinct_observations":         total.DistinctObs,
			"nested":                        total.Nested,
			"ops_histogram":                 total.OpsHistogram,
			"jobs":                          jobSummaries,
			"known_findings_hit":            knownHits,
			"tool_errors":                   toolErrors,
			"go":                            runtime.Version(),
		},
	}
	if sc := statementCoverage(prop); sc != nil {
		ev["coverage"].(map[string]any)["statement_coverage_of_anchored_files"] = sc
	}
	os.MkdirAll(filepath.Join(verifDir, "evidence"), 0o755)
	b, _ := json.MarshalIndent(ev, "", " ")
	os.WriteFile(filepath.Join(verifDir, "evidence", prop+".json"), b, 0o644)
	for _, l := range violLines {
		fmt.Println(l)
	}
	fmt.Printf("%s %s: jobs=%d states=%d transitions=%d nested=%v exhaustive=%v violations=%d known=%d tool_errors=%d wall=%.1fs\n",
		prop, tier, len(jobs), total.States, total.Transitions, compactNested(total.Nested), total.Exhaustive, violations, knownHits, toolErrors, time.Since(t0).Seconds())
	return exit
}

func compactNested(m map[string]int) string {
	keys := make([]string, 0, len(m))
	for k := range m {
		keys = append(keys, k)
	}
	sort.Strings(keys)
	var sb strings.Builder
	for _, k := range keys {
		fmt.Fprintf(&sb, "%s=%d ", k, m[k])
	}
	return strings.TrimSpace(sb.String())
}

func tailLines(s string, n int) string {
	l := strings.Split(strings.TrimSpace(s), "\n")
	if len(l) > n {
		l = l[:n]
	}
	return strings.Join(l, "\n")
}

func round2(f float64) float64 { return float64(int(f*100)) / 100 }

func addStats(t, s *Stats) {
	t.States += s.States
	t.Transitions += s.Transitions
	t.Changing += s.Changing
	t.Noop += s.Noop
	t.Replayed += s.Replayed
	t.PrefixChecks += s.PrefixChecks
	t.DistinctObs += s.DistinctObs
	if s.MaxDepth > t.MaxDepth {
		t.MaxDepth = s.MaxDepth
	}
	for k, v := range s.PerSize {
		t.PerSize[k] += v
	}
	for k, v := range s.Nested {
		t.Nested[k] += v
	}
	for k, v := range s.OpsHistogram {
		t.OpsHistogram[k] += v
	}
}

func writeReplay(prop string, j Job, r *JobResult, sig string) string {
	dir := filepath.Join(verifDir, "replays")
	os.MkdirAll(dir, 0o755)
	rj := j
	rj.Replay = &ReplaySpec{Path: r.Found.Path, Last: r.Found.Last, Aux: r.Aux}
	doc := map[string]any{
		"property": prop, "job": rj, "class": r.Found.V.Class, "message": r.Found.V.Msg,
		"signature": sig, "concrete_calls": r.Found.Calls, "nested": r.Found.Nested,
		"how_to_replay": "cd /verif && ./check.sh replay <this file>",
	}
	b, _ := json.MarshalIndent(doc, "", " ")
	h := hash16(string(b))
	name := fmt.Sprintf("%s-%x.json", prop, h[:5])
	p := filepath.Join(dir, name)
	os.WriteFile(p, b, 0o644)
	// a plain Go unit test performing the same calls without the explorer
	if mk, ok := sysForJob[j.Kind]; ok {
		intUniverseMode = j.s("intset", "")
		if s := mk(j); s != nil {
			if src := goTestFor(s, r.Found.Path, r.Found.Last, fmt.Sprintf("Replay_%s_%x", prop, h[:5]), r.Found.V.Msg); src != "" {
				os.WriteFile(strings.TrimSuffix(p, ".json")+"_test.go.txt", []byte(src), 0o644)
			}
		}
	}
	return p
}

// sysForJob: job kinds whose system can be rebuilt by the driver (for the generated Go test)
var sysForJob = map[string]func(j Job) Sys{}

func replayMain(file string) int {
	b, err := os.ReadFile(file)
	if err != nil {
		fmt.Fprintln(os.Stderr, err)
		return 2
	}
	var doc struct {
		Property string `json:"property"`
		Job      Job    `json:"job"`
	}
	if err := json.Unmarshal(b, &doc); err != nil {
		fmt.Fprintln(os.Stderr, err)
		return 2
	}
	doc.Job.ID += ".manual-replay"
	ro := runWorker(doc.Job, false, "")
	if ro.crashed {
		fmt.Printf("replay: worker died (exit %d): %s\n", ro.exit, clip(ro.stderr, 1500))
		fmt.Printf("VIOLATION property=%s replay=%s\n", doc.Property, file)
		return 1
	}
	if ro.res.Found != nil && ro.res.Found.V.Has(doc.Property) {
		fmt.Printf("replay: reproduced: %s\n  %s\n", ro.res.Found.V.Msg, strings.Join(ro.res.Found.Calls, "\n  "))
		fmt.Printf("VIOLATION property=%s replay=%s\n", doc.Property, file)
		return 1
	}
	fmt.Println("replay: trace passes on the current tree")
	return 0
}

func main() {
	if len(os.Args) < 2 {
		fmt.Fprintln(os.Stderr, "usage: vmc check <Cnn> <quick|thorough> | replay <file> | worker ...")
		os.Exit(2)
	}
	switch os.Args[1] {
	case "worker":
		os.Exit(workerMain(os.Args[2:]))
	case "check":
		tier := "quick"
		if len(os.Args) > 3 {
			tier = os.Args[3]
		} else if t := os.Getenv("VERIF_TIER"); t == "quick" || t == "thorough" {
			tier = t
		}
		os.Exit(checkMain(os.Args[2], tier))
	case "replay":
		os.Exit(replayMain(os.Args[2]))
	case "jobs":
		for _, j := range jobsFor(os.Args[2], os.Args[3]) {
			b, _ := json.Marshal(j)
			fmt.Println(string(b))
		}
	default:
		fmt.Fprintln(os.Stderr, "unknown command")
		os.Exit(2)
	}
}
