package main

// C11 (round trip of every reachable state) and C12 (loading every input of a
// bounded grammar into every small prior state).

import (
	"bytes"
	"encoding/json"
	"fmt"
	"reflect"
	"sort"
)

type jsonIO interface {
	ToJSON() ([]byte, error)
	FromJSON([]byte) error
	MarshalJSON() ([]byte, error)
	UnmarshalJSON([]byte) error
}

func jio(b Box) jsonIO {
	j, ok := b.Obj().(jsonIO)
	if !ok {
		panic(fmt.Sprintf("tool error: %T lacks the JSON interface", b.Obj()))
	}
	return j
}

// exploreFrom: bounded exhaustive continuation from a non-initial root
// (multi-root search, DESIGN.md §2.1): every operation sequence up to depth,
// each step checked by the box's own oracle, deduplicated by fingerprint.
func exploreFrom(mk func() Box, depth int, prop string, st *Stats, counter string) *Viol {
	type node struct{ path []Op }
	seen := map[[16]byte]bool{}
	root := mk()
	seen[hash16(root.Key()+"|"+obsOf(root))] = true
	frontier := []node{{nil}}
	for d := 0; d < depth; d++ {
		var next []node
		for _, nd := range frontier {
			base := mk()
			for _, o := range nd.path {
				base.Step(o)
			}
			for _, o := range base.Ops() {
				inflightSeq.Add(1)
				x := mk()
				bad := false
				for _, po := range nd.path {
					if v := x.Step(po); v != nil {
						bad = true
						break
					}
				}
				if bad {
					continue
				}
				what := x.Describe(o)
				v := safeStep(x, o, []string{prop})
				st.Nested[counter]++
				if v != nil {
					v.Msg = fmt.Sprintf("follow-up %v then %s: %s", nd.path, what, v.Msg)
					return retagKeep(v, prop)
				}
				h := hash16(x.Key() + "|" + obsOf(x))
				if !seen[h] {
					seen[h] = true
					if v := safeCheck(x.CheckState, []string{prop}, "state observers after follow-up"); v != nil {
						v.Msg = fmt.Sprintf("follow-up %v then %s: %s", nd.path, what, v.Msg)
						return retagKeep(v, prop)
					}
					next = append(next, node{append(append([]Op{}, nd.path...), o)})
				}
			}
		}
		frontier = next
	}
	return nil
}

func obsOf(b Box) string {
	if o, ok := b.(observer); ok {
		return o.Obs()
	}
	return ""
}

// retagKeep adds prop to the violation's properties.
func retagKeep(v *Viol, prop string) *Viol {
	if v == nil || v.Has(prop) {
		return v
	}
	v.Props = append(append([]string{}, v.Props...), prop)
	return v
}

// sameJSON: byte-equal, or for unordered containers equal as multisets of elements / members.
func sameJSON(a, b []byte, unordered bool) bool {
	if bytes.Equal(a, b) {
		return true
	}
	if !unordered {
		return false
	}
	var x, y any
	if json.Unmarshal(a, &x) != nil || json.Unmarshal(b, &y) != nil {
		return false
	}
	norm := func(v any) any {
		if arr, ok := v.([]any); ok {
			s := make([]string, len(arr))
			for i, e := range arr {
				bb, _ := json.Marshal(e)
				s[i] = string(bb)
			}
			sort.Strings(s)
			return s
		}
		return v
	}
	return reflect.DeepEqual(norm(x), norm(y))
}

func firstByte(b []byte) byte {
	for _, c := range b {
		if c != ' ' && c != '\n' && c != '\t' && c != '\r' {
			return c
		}
	}
	return 0
}

// roundTripCheck: C11 on one state.
func roundTripCheck(build func() Inst, pend func(key, via string), st *Stats) *Viol {
	p := tag("C11")
	x := build().(Box)
	k0 := x.Key()
	out, err := jio(x).ToJSON()
	if err != nil {
		return viol(p, "mismatch", "ToJSON of %s failed: %v", x.ContainerName(), err)
	}
	if !json.Valid(out) {
		return viol(p, "mismatch", "ToJSON of %s is not valid JSON: %s", x.ContainerName(), out)
	}
	want := byte('[')
	if x.JSONKind() == "object" {
		want = '{'
	}
	if firstByte(out) != want {
		return viol(p, "mismatch", "ToJSON of %s is %s, want a JSON %s", x.ContainerName(), out, x.JSONKind())
	}
	mar, err := json.Marshal(x.Obj())
	if err != nil {
		return viol(p, "mismatch", "json.Marshal(%s) failed: %v (ToJSON gives %s)", x.ContainerName(), err, out)
	}
	if !sameJSON(out, mar, x.Unordered()) {
		return viol(p, "mismatch", "ToJSON of %s = %s but json.Marshal = %s", x.ContainerName(), out, mar)
	}
	if x.Key() != k0 {
		return viol(tag("C11", "C18"), "invariant", "ToJSON/json.Marshal changed the container %s", x.ContainerName())
	}
	// the returned bytes are the caller's: serialising ANOTHER container of the same type (differently
	// filled) must not change them, and writing to them must not change what ToJSON returns next
	keep := append([]byte{}, out...)
	other := x.Fresh()
	if ops := other.Ops(); len(ops) > 0 {
		safeStep(other, ops[0], nil)
		if len(ops) > 1 {
			safeStep(other, ops[len(ops)/2], nil)
		}
	}
	if _, err := jio(other).ToJSON(); err == nil && !bytes.Equal(out, keep) {
		return viol(tag("C11", "C16"), "invariant", "the bytes returned by ToJSON of one %s (%s) changed to %s when another %s was serialised (shared output buffer)", x.ContainerName(), keep, out, x.ContainerName())
	}
	for i := range out {
		out[i] = 'X'
	}
	if again, err := jio(x).ToJSON(); err != nil || !sameJSON(again, keep, x.Unordered()) {
		return viol(tag("C11", "C16"), "invariant", "after the caller overwrote the bytes returned by ToJSON, the next ToJSON of %s returns %s (was %s)", x.ContainerName(), again, keep)
	}
	out = keep
	st.Nested["roundtrip_states"]++
	for _, via := range []string{"FromJSON", "json.Unmarshal"} {
		via := via
		var loadErr error
		mk := func() Box {
			y := x.Fresh()
			if via == "FromJSON" {
				loadErr = jio(y).FromJSON(out)
			} else {
				loadErr = json.Unmarshal(out, y.Obj())
			}
			y.AdoptRef(x)
			return y
		}
		y := mk()
		if loadErr != nil {
			return viol(p, "mismatch", "%s of the container's own ToJSON output %s into a fresh %s failed: %v", via, out, x.ContainerName(), loadErr)
		}
		// the reloaded container, judged by the ORIGINAL's reference: same size, contents, order
		if v := safeCheck(y.CheckState, []string{"C11"}, "observers of the reloaded container"); v != nil {
			v.Msg = fmt.Sprintf("%s reloaded from its own ToJSON output %s (%s) is not equivalent to the original: %s", x.ContainerName(), out, via, v.Msg)
			return retagKeep(v, "C11")
		}
		// and it keeps behaving like the original.  If the reloaded fingerprint equals the
		// original's, the futures are identical (deterministic code).  Otherwise the reloaded
		// state is registered: after the search it is either a member of the verified
		// reachable set (closure gives every continuation) or explored as a new root.
		if yk := y.Key(); yk != k0 {
			pend(yk, via)
		} else {
			st.Nested["reloaded_fingerprint_identical"]++
		}
		if d, ok := y.(interface{ drainSeq() string }); ok {
			// "the same subsequent Pop/Dequeue sequence": element for element, ties included
			orig := build().(interface{ drainSeq() string }).drainSeq()
			if got := d.drainSeq(); got != orig {
				return viol(p, "mismatch", "%s reloaded from its own ToJSON output %s (%s) is drained in the order %s, the original in the order %s", x.ContainerName(), out, via, got, orig)
			}
			y = mk()
		}
		if d, ok := y.(interface{ drain() *Viol }); ok {
			if v := d.drain(); v != nil {
				v.Msg = fmt.Sprintf("%s reloaded from %s (%s): %s", x.ContainerName(), out, via, v.Msg)
				return retagKeep(v, "C11")
			}
		}
		st.Nested["roundtrips"]++
	}
	return nil
}

type loadAux struct {
	Input string `json:"input"`
	Via   string `json:"via"`
}

// loadCase: C12 on one (prior state, input, entry point).
func loadCase(build func() Inst, input string, via string, depth int, seen map[[16]byte]bool, st *Stats) *Viol {
	p := tag("C12")
	inflightSeq.Add(1)
	var err error
	mk := func() Box {
		x := build().(Box)
		if via == "FromJSON" {
			err = jio(x).FromJSON([]byte(input))
		} else {
			err = json.Unmarshal([]byte(input), x.Obj())
		}
		return x
	}
	x0 := build().(Box)
	k0 := x0.Key()
	x := mk()
	st.Nested["loads"]++
	if err != nil {
		st.Nested["loads_rejected"]++
		if k := x.Key(); k != k0 {
			return viol(p, "invariant", "%s(%q) on %s returned the error %q but changed the container:\n before %s\n after  %s", via, input, x.ContainerName(), err, clip(k0, 400), clip(k, 400))
		}
		if v := safeCheck(x.CheckState, []string{"C12"}, "observers after a rejected load"); v != nil {
			v.Msg = fmt.Sprintf("after %s(%q) returned an error on %s: %s", via, input, x.ContainerName(), v.Msg)
			return retagKeep(v, "C12")
		}
		return nil
	}
	st.Nested["loads_accepted"]++
	if !x.LoadRef([]byte(input)) {
		// the container accepted what the reference decode rejects: counted, not flagged
		st.Nested["accepted_though_reference_decode_rejects"]++
		return nil
	}
	if v := safeCheck(x.CheckState, []string{"C12"}, "observers after a successful load"); v != nil {
		v.Msg = fmt.Sprintf("after %s(%q) = nil on %s the content is not what the input denotes: %s", via, input, x.ContainerName(), v.Msg)
		return retagKeep(v, "C12")
	}
	// the loaded container keeps all its guarantees: explore from it as a new root
	h := hash16(x.Key() + "|" + obsOf(x))
	if !seen[h] {
		seen[h] = true
		st.Nested["distinct_loaded_states_explored"]++
		mk2 := func() Box {
			y := mk()
			y.LoadRef([]byte(input))
			return y
		}
		if v := exploreFrom(mk2, depth, "C12", st, "load_followup_transitions"); v != nil {
			v.Msg = fmt.Sprintf("after %s(%q) = nil on %s: %s", via, input, x.ContainerName(), v.Msg)
			return v
		}
		if d, ok := mk2().(interface{ drain() *Viol }); ok {
			if v := d.drain(); v != nil {
				v.Msg = fmt.Sprintf("after %s(%q) = nil on %s: %s", via, input, x.ContainerName(), v.Msg)
				return retagKeep(v, "C12")
			}
		}
	}
	return nil
}

func init() {
	jobKinds["json11"] = func(j Job, r *JobResult) {
		s := makeSys(j.s("c", ""), j)
		depth := j.p("depth", 2)
		type root struct {
			path []Op
			via  string
		}
		pending := map[string]root{}
		var order []string
		exploreJob(j, r, s, func(e *Explorer) {
			e.NoState = true
			mkRoot := func(rt root) func() Box {
				return func() Box {
					x := e.Rebuild(rt.path).(Box)
					out, _ := jio(x).ToJSON()
					y := x.Fresh()
					if rt.via == "FromJSON" {
						jio(y).FromJSON(out)
					} else {
						json.Unmarshal(out, y.Obj())
					}
					y.AdoptRef(x)
					return y
				}
			}
			e.OnState = func(path []Op, build func() Inst, st *Stats) *Viol {
				// trees reload through a Go map range: repeat so that several insertion orders occur
				reps := j.p("reps", 1)
				for i := 0; i < reps; i++ {
					v := roundTripCheck(build, func(key, via string) {
						if _, ok := pending[key]; !ok {
							pending[key] = root{append([]Op{}, path...), via}
							order = append(order, key)
						}
					}, st)
					if v != nil {
						return v
					}
				}
				if j.Replay != nil {
					// replay mode: explore this state's reloaded roots right away
					for _, k := range order {
						if v := exploreFrom(mkRoot(pending[k]), depth, "C11", st, "roundtrip_followup_transitions"); v != nil {
							return v
						}
					}
				}
				return nil
			}
			e.After = func(e *Explorer) *Found {
				for _, k := range order {
					if e.HasKey(k) {
						e.St.Nested["reloaded_states_member_of_verified_reachable_set"]++
						continue
					}
					e.St.Nested["reloaded_states_explored_as_new_root"]++
					rt := pending[k]
					if v := exploreFrom(mkRoot(rt), depth, "C11", &e.St, "roundtrip_followup_transitions"); v != nil {
						if v.Has(e.Want) {
							v.Msg = fmt.Sprintf("reloaded through %s: %s", rt.via, v.Msg)
							return e.found(v, rt.path, nil)
						}
					}
				}
				return nil
			}
		})
	}
	jobKinds["json12"] = func(j Job, r *JobResult) {
		s := makeSys(j.s("c", ""), j)
		depth := j.p("depth", 2)
		g := quickGrammar()
		if j.Tier == "thorough" {
			g = thoroughGrammar()
		}
		if j.s("elem", "") == "ov" {
			g = structGrammar(j.Tier == "thorough")
		}
		g.TwoByte = j.p("twobyte", 0) == 1
		inputs := g.texts()
		vias := []string{"FromJSON", "json.Unmarshal"}
		if j.Replay != nil && j.Replay.Aux != nil {
			var aux loadAux
			json.Unmarshal(j.Replay.Aux, &aux)
			e := &Explorer{Sys: s}
			st := Stats{Nested: map[string]int{}}
			build := func() Inst { return e.replay(j.Replay.Path) }
			for try := 0; try < 64; try++ { // map-ordered loads: repeat
				v := safeCheck(func() *Viol { return loadCase(build, aux.Input, aux.Via, depth, map[[16]byte]bool{}, &st) }, []string{"C12"}, "load case")
				if v != nil {
					r.Found = &Found{V: v, Path: j.Replay.Path}
					r.Notes = append(r.Notes, fmt.Sprintf("reproduced at attempt %d", try+1))
					break
				}
			}
			r.St = st
			return
		}
		exploreJob(j, r, s, func(e *Explorer) {
			e.NoState = true
			seen := map[[16]byte]bool{}
			maxPrior := j.p("prior", 2)
			e.OnState = func(path []Op, build func() Inst, st *Stats) *Viol {
				if build().Size() > maxPrior {
					return nil
				}
				st.Nested["prior_states"]++
				for _, in := range inputs {
					for _, via := range vias {
						if v := loadCase(build, in, via, depth, seen, st); v != nil {
							aux, _ := json.Marshal(loadAux{Input: in, Via: via})
							r.Aux = aux
							return v
						}
					}
				}
				return nil
			}
		})
		r.Notes = append(r.Notes, fmt.Sprintf("%d inputs x %d entry points per prior state", len(inputs), len(vias)))
		if len(r.St.Samples) < 4 {
			r.St.Samples = append(r.St.Samples, map[string]any{"system": s.Name(), "inputs_first": inputs[:min(8, len(inputs))], "inputs_last": inputs[max(0, len(inputs)-4):], "entry_points": vias})
		}
	}
}

// ---- JSON load family for the comparator trees ------------------------------------------------
//
// The ordinary round-trip jobs stop at 4/6 elements and FromJSON cannot be an operation of the tree
// alphabets (on the pinned tree the shape after a load depends on Go's map order, which would break
// the determinism the fixpoint search relies on).  A loaded tree is nevertheless a start state of
// every history.  This job enumerates a FAMILY exhaustively: for every size n up to a bound the tree
// holding the keys {0, 2, .., 2n-2} is serialised and loaded into a fresh tree (both entry points);
// the loaded tree is judged by the original's reference (content, order, shape, comparator-call
// bounds) and then every operation sequence of length <= 2 (n <= deepN) or 1 over Put/Remove of
// EVERY key of {0..2n} (present keys and every gap) and Clear is applied to it, each step under the
// family's full oracle.  Whatever shape the load produced, the oracle must hold, so the map order
// cannot cause an alarm; it can only make a violation need several tries to reproduce.
func jsonFamilyJob(j Job, r *JobResult) {
	maxN, deepN := j.p("maxn", 40), j.p("deepn", 12)
	r.St = Stats{Nested: map[string]int{}, PerSize: map[int]int{}, OpsHistogram: map[string]int{}, Exhaustive: true}
	sizes := intRange(0, maxN)
	if j.Replay != nil && len(j.Replay.Path) > 0 {
		sizes = []int{len(j.Replay.Path)}
	}
	var sysName string
	for _, n := range sizes {
		jj := j
		jj.P = map[string]int{}
		for k, v := range j.P {
			jj.P[k] = v
		}
		jj.P["u"], jj.P["n"], jj.P["vu"] = 2*n+1, n+2, 2*n+1
		sys := kvSysFromJob(jj)
		sysName = sys.Name()
		var fill []Op
		probe := sys.New().(Box)
		two := false
		for _, o := range probe.Ops() {
			if o.N == "put" && len(o.A) == 2 {
				two = true
			}
		}
		for i := 0; i < n; i++ {
			if two {
				fill = append(fill, op("put", 2*i, 2*n-2*i)) // bidirectional maps: values in reverse order
			} else {
				fill = append(fill, op("put", 2*i))
			}
		}
		for _, via := range []string{"FromJSON", "json.Unmarshal"} {
			via := via
			var loadErr error
			var text []byte
			mk := func() Box {
				x := sys.New().(Box)
				for _, o := range fill {
					if v := x.Step(o); v != nil {
						panic("tool error: json family prefix diverged: " + v.Msg)
					}
				}
				out, err := jio(x).ToJSON()
				if err != nil {
					panic("tool error: ToJSON failed in the json family: " + err.Error())
				}
				text = out
				y := x.Fresh()
				if via == "FromJSON" {
					loadErr = jio(y).FromJSON(out)
				} else {
					loadErr = json.Unmarshal(out, y.Obj())
				}
				y.AdoptRef(x)
				return y
			}
			found := func(v *Viol) bool {
				if v == nil && j.Prop == "C17" {
					v = outGuardCheck("json load family")
				}
				if v == nil {
					return false
				}
				v.Msg = fmt.Sprintf("%s holding the %d keys {0,2,..,%d}, serialised and reloaded through %s: %s", sysName, n, 2*n-2, via, v.Msg)
				v = retagKeep(v, "C11")
				v = retagKeep(v, "C12")
				if !v.Has(j.Prop) {
					return false
				}
				r.Found = &Found{V: v, Path: fill, Calls: append(describePath(sys, fill, nil), fmt.Sprintf("ToJSON -> %s; %s into a fresh container", clip(string(text), 200), via))}
				r.St.Exhaustive = false
				return true
			}
			inflightSeq.Add(1)
			var y Box
			if v := safeCheck(func() *Viol { y = mk(); return nil }, nil, "serialise and reload"); found(v) {
				return
			}
			if loadErr != nil {
				if found(viol(tag("C11"), "mismatch", "loading the container's own ToJSON output failed: %v", loadErr)) {
					return
				}
				continue
			}
			if found(safeCheck(y.CheckState, nil, "observers of the reloaded container")) {
				return
			}
			depth := 1
			if n <= deepN {
				depth = 2
			}
			if found(exploreFrom(mk, depth, "C12", &r.St, "json_family_followup_transitions")) {
				return
			}
			r.St.Nested["json_family_loads"]++
		}
		r.St.States++
		r.St.PerSize[n]++
	}
	r.St.Samples = []any{map[string]any{"system": sysName, "family": "keys {0,2,..,2n-2} for every n up to the bound, serialised and loaded into a fresh container through FromJSON and json.Unmarshal", "max_n": maxN, "followups": fmt.Sprintf("every sequence of <= 2 operations (n <= %d), else 1, over Put/Remove of every key of {0..2n} and Clear", deepN)}}
}

func init() { jobKinds["jsonfamily"] = jsonFamilyJob }
