#!/bin/bash
# tools/seed_in.sh <srcroot> <Cnn> <first-id-number>: verify SEED/1, SEED/2 of a sub-agent worktree and run the property's quick check (overlay mode)
src=$1; p=$2; n=$3
cd /verif
for k in 1 2; do
  id=$p-$((n+k-1))
  python3 tools/seed.py verify $src/$p/SEED/$k $id $p 2>&1 | tail -1
  [ -d seeded/$id ] && SEED_MODE=overlay python3 tools/seed.py check $id 2>&1 | cut -c1-330
done
