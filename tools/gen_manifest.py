#!/usr/bin/env python3
"""Regenerates /verif/MANIFEST.json from the table below (keeps it schema-valid)."""
import json, os, sys
HERE = os.path.dirname(os.path.dirname(os.path.abspath(__file__)))
props = [json.loads(l) for l in open(os.path.join(HERE, 'properties.jsonl'))]

# property id -> (technique, level text, level note); a property absent here is listed under not_applicable
CLAIMED = json.load(open(os.path.join(HERE, 'tools', 'claims.json')))

BASE = open('/root/.vp/BASELINE.json').read() if os.path.exists('/root/.vp/BASELINE.json') else '{}'
baseline_cmd = json.loads(BASE).get('cmd', 'cd /repo && go test -count=1 ./...')

checks, na = [], []
for p in props:
    pid = p['id']
    c = CLAIMED.get(pid)
    if not c:
        na.append({"property_id": pid, "reason": "check not built yet (work in progress; nothing in the technique prevents it, see DESIGN.md section 4)"})
        continue
    checks.append({
        "property_id": pid,
        "quick_cmd": f"./check.sh {pid} quick",
        "thorough_cmd": f"./check.sh {pid} thorough",
        "evidence_file": f"/verif/evidence/{pid}.json",
        "replay_cmd_template": "./check.sh replay {path}",
        "engine": "vmc",
        "level_claimed": {"category": "model_checking", "text": c["text"], "design_ref": f"DESIGN.md section 4, {pid}"},
        "level_note": c["note"],
        "technique": c["technique"],
    })
m = {
    "version": 1,
    "setup_cmd": "./setup.sh",
    "hooks": {
        "guard": "verif",
        "enable": "no source hooks are needed: private state is read by reflection; instrumented variants come from compiler flags (-race) and go build -overlay; the tag 'verif' is reserved and unused",
        "baseline_off_cmd": baseline_cmd,
        "source_commits": [],
        "add_only": True,
    },
    "engines": [{
        "name": "vmc", "path": "/verif/mc",
        "serves_properties": [c["property_id"] for c in checks],
        "kind_free_text": "hand-written explicit-state model checker for Go: breadth-first search over the real containers (successor = replay shortest path on a fresh instance + one real call), state deduplication by a reflective canonical heap fingerprint, reference models as oracles, nested exhaustive enumerations per reachable state, one worker process per job",
    }],
    "checks": checks,
    "not_applicable": na,
    "notes": "All checks rebuild /verif/mc against /repo's working tree (go.mod replace) before running. Known/fixed defects: /verif/known_findings.json.",
}
json.dump(m, open(os.path.join(HERE, 'MANIFEST.json'), 'w'), indent=1)
print("claimed", len(checks), "not_applicable", len(na))
