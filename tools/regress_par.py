#!/usr/bin/env python3
"""Detection regression, several checks at a time: every self-mutant (mutants/*.json) and every seeded
change (seeded/*/) is built in through `go build -overlay` (so /repo is never touched) and run against
the quick tier of the properties recorded for it; verdicts go to mutants/RESULTS.md, the seeds'
meta.json and seeded/TABLE.md.

  tools/regress_par.py [streams=4] [only-substring]
"""
import json, os, subprocess, sys, time, glob
from concurrent.futures import ThreadPoolExecutor
sys.path.insert(0, os.path.dirname(os.path.abspath(__file__)))
import mut, seed
V = seed.V
streams = int(sys.argv[1]) if len(sys.argv) > 1 else 4
only = sys.argv[2] if len(sys.argv) > 2 else ''

tasks = []  # (kind, id, prop, overlay)
for f in sorted(glob.glob(f'{V}/mutants/*.json')):
    mid = os.path.basename(f)[:-5]
    m = mut.load(mid)
    if m.get('equivalent') or only not in mid:
        continue
    ov = mut.overlay(mid, m)
    for p in m['props']:
        tasks.append(('mutant', mid, p, ov))
for d in sorted(os.listdir(f'{V}/seeded')):
    mp = f'{V}/seeded/{d}/meta.json'
    if not os.path.exists(mp) or only not in d:
        continue
    meta = json.load(open(mp))
    if meta.get('outside_property'):
        continue
    props = sorted(set([p for p, x in meta.get('checks', {}).items() if x.get('caught')] or [meta['breaks_property']]))
    ov = seed.make_overlay(d)  # sequential: git worktree operations do not like company
    for p in props:
        tasks.append(('seed', d, p, ov))
print(f'{len(tasks)} (change, check) pairs, {streams} at a time', flush=True)

def one(t):
    kind, cid, prop, ov = t
    env = dict(seed.ENV, VERIF_OVERLAY=ov, VERIF_GOCACHE=f'{V}/.gocache', VERIF_PAR='6')
    t0 = time.time()
    r = subprocess.run([f'{V}/check.sh', prop, 'quick'], env=env, capture_output=True, text=True)
    subprocess.run(['git', '-C', V, 'checkout', '--', f'evidence/{prop}.json'], capture_output=True)  # evidence of a run against a changed tree is not evidence
    caught = r.returncode == 1 and f'VIOLATION property={prop}' in r.stdout
    lines = r.stderr.splitlines()
    first, msg = '', ''
    for i, l in enumerate(lines):
        if l.startswith('----'):
            first, msg = l, ' | '.join(lines[i + 1:i + 3])[:300]
            break
    res = {'caught': caught, 'exit': r.returncode, 'tier': 'quick', 's': round(time.time() - t0, 1), 'first': first, 'msg': msg, 'applied_by': 'overlay'}
    print(f"{kind} {cid} {prop}: {'CAUGHT' if caught else 'MISSED'} exit={r.returncode} {res['s']}s {first[:120]}", flush=True)
    return t, res

with ThreadPoolExecutor(streams) as ex:
    results = list(ex.map(one, tasks))

rows, missed = [], []
for (kind, cid, prop, _), res in results:
    if not res['caught']:
        missed.append((kind, cid, prop))
    if kind == 'seed':
        mp = f'{V}/seeded/{cid}/meta.json'
        meta = json.load(open(mp))
        meta.setdefault('checks', {})[prop] = res
        json.dump(meta, open(mp, 'w'), indent=1)
    else:
        m = mut.load(cid)
        rows.append((cid, m['file'], 'yes' if m.get('suite_passes') else 'no', prop, 'CAUGHT' if res['caught'] else 'MISSED', res['s'], m.get('why', '')))
if not only:
    for f in sorted(glob.glob(f'{V}/mutants/*.json')):
        m = json.load(open(f))
        if m.get('equivalent'):
            rows.append((os.path.basename(f)[:-5], m['file'], 'n/a', '-', 'EQUIVALENT (not run)', 0, m.get('why', '') + ' ' + m.get('note', '')))
    with open(f'{V}/mutants/RESULTS.md', 'w') as o:
        o.write('# Self-mutation results (tools/regress_par.py, quick tier, go build -overlay)\n\n')
        o.write('| mutant | file | repo tests pass? | check | verdict | s | what it breaks |\n|---|---|---|---|---|---|---|\n')
        for row in sorted(rows):
            o.write('| ' + ' | '.join(str(c) for c in row) + ' |\n')
    with open(f'{V}/seeded/TABLE.md', 'w') as o:
        sys.stdout, keep = o, sys.stdout
        seed.table()
        sys.stdout = keep
subprocess.run(['rm', '-f'] + glob.glob(f'{V}/replays/*'))
print(f'{len(results)} pairs, {len(missed)} missed: {missed}')
print('REGRESS-DONE')
