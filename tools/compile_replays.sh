#!/bin/bash
# compile-check the generated Go tests of the replay files currently in /verif/replays
export GOFLAGS=-mod=mod GOPROXY=off GOSUMDB=off GOTOOLCHAIN=local GOCACHE=/verif/.gocache
d=/root/scratch/replaytest
rm -rf $d; mkdir -p $d
cat > $d/go.mod <<EOM
module replaytest

go 1.21

require github.com/emirpasic/gods/v2 v2.0.0

replace github.com/emirpasic/gods/v2 => /repo
EOM
cp /repo/go.sum $d/ 2>/dev/null
i=0
for f in /verif/replays/*_test.go.txt; do
  [ -f "$f" ] || continue
  i=$((i+1)); mkdir -p $d/r$i; cp "$f" $d/r$i/replay_test.go
done
(cd $d && go vet ./... 2>&1 | head -20; echo "compiled $i generated tests")
rm -rf $d
