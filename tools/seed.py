#!/usr/bin/env python3
"""Seeded (sub-agent written) property-breaking changes.

  tools/seed.py verify <srcdir> <id> <prop>   verify a candidate from a sub-agent worktree (srcdir holds patch.diff,
                                              demo_test.go, README.md) in a fresh scratch worktree: builds, repository suite
                                              passes, demo fails with the patch and passes without; on success copies it to
                                              /verif/seeded/<id>/ with meta.json
  tools/seed.py check <id> [tier] [props..]   git -C /repo apply the patch, run the checks (default: the property it breaks),
                                              git -C /repo checkout -- . ; records the verdict in meta.json
  tools/seed.py table                         print the DESIGN.md table
"""
import json, os, re, shutil, subprocess, sys, time
V = os.path.dirname(os.path.dirname(os.path.abspath(__file__)))
ENV = dict(os.environ, GOFLAGS='-mod=mod', GOPROXY='off', GOSUMDB='off', GOTOOLCHAIN='local')

def sh(cmd, cwd=None, **kw):
    return subprocess.run(cmd, cwd=cwd, env=ENV, capture_output=True, text=True, **kw)

def demo_dir(text):
    m = re.search(r'place in\s+([\w/.\-]+)', text)
    if not m:
        raise SystemExit('demo_test.go does not say where to place it')
    return m.group(1).strip('/').rstrip('.')

def needs(readme):
    paras = [p.strip() for p in re.split(r'\n\s*\n', readme) if p.strip()]
    title = paras[0] if paras else ''
    trig = [p for p in paras if re.search(r'trigger|manifest|needs|need to|required to', p, re.I)]
    return (title + '\n' + ('\n'.join(trig[:2]) if trig else '\n'.join(paras[1:3])))[:1200]

def verify(src, sid, prop):
    patch = os.path.join(src, 'patch.diff')
    demo = open(os.path.join(src, 'demo_test.go')).read()
    pkg = demo_dir(demo)
    d = f'/root/scratch/seed-{sid}'
    shutil.rmtree(d, ignore_errors=True)
    os.makedirs('/root/scratch', exist_ok=True)
    sh(['git', '-C', '/repo', 'worktree', 'prune'])
    r = sh(['git', '-C', '/repo', 'worktree', 'add', '--detach', '-f', d, 'HEAD'])
    assert r.returncode == 0, r.stderr
    ran = []
    try:
        r = sh(['git', 'apply', patch], cwd=d); ran.append(('git apply patch.diff', r.returncode))
        if r.returncode != 0:
            print('patch does not apply:', r.stderr); return False
        r = sh(['go', 'build', './...'], cwd=d); ran.append(('go build ./...', r.returncode))
        if r.returncode != 0:
            print('does not build:', r.stderr[-800:]); return False
        r = sh(['go', 'test', '-count=1', '-vet=off', './...'], cwd=d); ran.append(('go test ./... (with patch)', r.returncode))
        if r.returncode != 0:
            print('repository suite FAILS with the patch: rejected'); print(r.stdout[-800:]); return False
        target = os.path.join(d, pkg, 'zz_seed_demo_test.go')
        open(target, 'w').write(demo)
        r = sh(['go', 'test', '-count=1', '-vet=off', '-race', '-run', '.', './' + pkg], cwd=d, timeout=600); ran.append((f'demo in {pkg} with patch', r.returncode))
        if r.returncode == 0:
            print('demo PASSES with the patch: rejected'); return False
        with_out = r.stdout[-600:]
        sh(['git', 'apply', '-R', patch], cwd=d)
        r = sh(['go', 'test', '-count=1', '-vet=off', '-race', '-run', '.', './' + pkg], cwd=d, timeout=600); ran.append((f'demo in {pkg} without patch', r.returncode))
        if r.returncode != 0:
            print('demo FAILS without the patch: rejected'); print(r.stdout[-800:]); return False
    finally:
        sh(['git', '-C', '/repo', 'worktree', 'remove', '--force', d])
        sh(['git', '-C', '/repo', 'worktree', 'prune'])
    out = f'{V}/seeded/{sid}'
    os.makedirs(out, exist_ok=True)
    for f in ('patch.diff', 'demo_test.go', 'README.md'):
        if os.path.exists(os.path.join(src, f)):
            shutil.copy(os.path.join(src, f), out)
    readme = open(os.path.join(src, 'README.md')).read() if os.path.exists(os.path.join(src, 'README.md')) else ''
    meta = {'id': sid, 'breaks_property': prop, 'demo_package': pkg,
            'needs_to_manifest': needs(readme),
            'verified': [{'cmd': c, 'exit': e} for c, e in ran],
            'verified_summary': 'patch applies, builds, repository suite passes with it, demo fails with it and passes without',
            'written_by': 'independent sub-agent given only the property text and a scratch worktree'}
    json.dump(meta, open(f'{out}/meta.json', 'w'), indent=1)
    print(f'{sid}: verified -> {out}')
    return True

def make_overlay(sid):
    """patched copies of the changed files outside /repo + an overlay.json for go build -overlay"""
    out = f'{V}/seeded/{sid}'
    d = f'/root/scratch/seedov-{sid}'
    shutil.rmtree(d, ignore_errors=True)
    sh(['git', '-C', '/repo', 'worktree', 'prune'])
    r = sh(['git', '-C', '/repo', 'worktree', 'add', '--detach', '-f', d, 'HEAD'])
    assert r.returncode == 0, r.stderr
    r = sh(['git', 'apply', f'{out}/patch.diff'], cwd=d)
    assert r.returncode == 0, r.stderr
    files = sh(['git', 'diff', '--name-only'], cwd=d).stdout.split()
    keep = f'{V}/work/seedov/{sid}'
    shutil.rmtree(keep, ignore_errors=True)
    os.makedirs(keep, exist_ok=True)
    rep = {}
    for i, f in enumerate(files):
        dst = f'{keep}/{i}_{os.path.basename(f)}'
        shutil.copy(f'{d}/{f}', dst)
        rep['/repo/' + f] = dst
    json.dump({'Replace': rep}, open(f'{keep}/overlay.json', 'w'))
    sh(['git', '-C', '/repo', 'worktree', 'remove', '--force', d])
    sh(['git', '-C', '/repo', 'worktree', 'prune'])
    return f'{keep}/overlay.json'

def check(sid, tier='quick', props=None, mode=None):
    out = f'{V}/seeded/{sid}'
    meta = json.load(open(f'{out}/meta.json'))
    props = props or [meta['breaks_property']]
    mode = mode or os.environ.get('SEED_MODE', 'apply')
    env = dict(ENV)
    if mode == 'overlay':
        env['VERIF_OVERLAY'] = make_overlay(sid)
    else:
        st = sh(['git', '-C', '/repo', 'status', '--porcelain'])
        assert st.stdout.strip() == '', '/repo is not clean'
        r = sh(['git', '-C', '/repo', 'apply', f'{out}/patch.diff'])
        assert r.returncode == 0, r.stderr
    res = {}
    try:
        for p in props:
            t0 = time.time()
            r = subprocess.run([f'{V}/check.sh', p, tier], env=env, capture_output=True, text=True)
            # the run against the CHANGED tree rewrote evidence/<p>.json: put the committed (clean-tree) file back
            subprocess.run(['git', '-C', V, 'checkout', '--', f'evidence/{p}.json'], capture_output=True)
            caught = r.returncode == 1 and f'VIOLATION property={p}' in r.stdout
            first = next((l for l in r.stderr.splitlines() if l.startswith('----')), '')
            msg = ''
            lines = r.stderr.splitlines()
            for i, l in enumerate(lines):
                if l.startswith('----'):
                    msg = ' | '.join(lines[i + 1:i + 3])[:300]
                    break
            res[p] = {'caught': caught, 'exit': r.returncode, 'tier': tier, 's': round(time.time() - t0, 1), 'first': first, 'msg': msg, 'applied_by': mode}
            print(f"{sid} {p} {tier}: {'CAUGHT' if caught else 'MISSED'} exit={r.returncode} {res[p]['s']}s {first} {msg[:160]}")
    finally:
        if mode != 'overlay':
            sh(['git', '-C', '/repo', 'checkout', '--', '.'])
        subprocess.run(['rm', '-f'] + [os.path.join(f'{V}/replays', x) for x in os.listdir(f'{V}/replays')])
    meta.setdefault('checks', {}).update(res)
    json.dump(meta, open(f'{out}/meta.json', 'w'), indent=1)
    return res

def table():
    rows = []
    for sid in sorted(os.listdir(f'{V}/seeded')):
        mp = f'{V}/seeded/{sid}/meta.json'
        if not os.path.exists(mp):
            continue
        m = json.load(open(mp))
        for p, x in sorted(m.get('checks', {}).items()):
            rows.append(f"| {sid} | {m['breaks_property']} | {p} {x['tier']} ({x.get('applied_by','apply')}) | {'caught' if x['caught'] else 'MISSED'} | {x.get('first','').replace('----','').strip()} |")
        if m.get('outside_property'):
            rows.append(f"| {sid} | {m['breaks_property']} | - | outside the property as stated | {m['outside_property']} |")
    print('| seeded change | written against | check run (patch applied by) | verdict | first report |\n|---|---|---|---|---|')
    print('\n'.join(rows))

if __name__ == '__main__':
    c = sys.argv[1]
    if c == 'verify':
        sys.exit(0 if verify(sys.argv[2], sys.argv[3], sys.argv[4]) else 1)
    if c == 'check':
        tier = sys.argv[3] if len(sys.argv) > 3 else 'quick'
        r = check(sys.argv[2], tier, sys.argv[4:] or None)
        sys.exit(0 if all(x['caught'] for x in r.values()) else 1)
    if c == 'table':
        table()
    if c == 'drop':      # drop <id> <prop>: forget the verdict of a check that was run out of curiosity against a property the change does not break
        mp = f'{V}/seeded/{sys.argv[2]}/meta.json'
        m = json.load(open(mp)); m.get('checks', {}).pop(sys.argv[3], None)
        json.dump(m, open(mp, 'w'), indent=1)
    if c == 'outside':   # outside <id> <reason>: the demonstrated behaviour is outside the property's quantifier
        mp = f'{V}/seeded/{sys.argv[2]}/meta.json'
        m = json.load(open(mp)); m['outside_property'] = sys.argv[3]
        json.dump(m, open(mp, 'w'), indent=1)
