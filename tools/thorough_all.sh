#!/bin/bash
# run every thorough check once (clean tree expected); prints time, verdict line and any alarm
cd "$(dirname "$0")/.."
export VERIF_GOCACHE=/verif/.gocache
for p in C01 C02 C03 C04 C05 C06 C07 C08 C09 C10 C11 C12 C13 C14 C15 C16 C17 C18; do
  /usr/bin/time -f "$p %es" ./check.sh $p thorough 2>&1 | grep -E "^C[0-9]+ [0-9.]+s|^C[0-9]+ thorough|VIOLATION|TOOL|NOTE" | cut -c1-260
done
echo THOROUGH-DONE
