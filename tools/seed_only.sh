#!/bin/bash
# tools/seed_only.sh <seed-id> <Cnn> <job-substring> [tier]: run only the jobs whose id contains the substring against a seeded change (overlay)
cd /verif
ov=$(python3 -c "import sys; sys.path.insert(0,'tools'); import seed; print(seed.make_overlay('$1'))")
VERIF_OVERLAY=$ov VERIF_ONLY=$3 ./check.sh $2 ${4:-quick} 2>&1 | grep -E "^----|^C[0-9]+ (quick|thorough)|VIOLATION|TOOL" | cut -c1-600
git -C /verif checkout -- evidence/$2.json 2>/dev/null  # the run against the changed tree rewrote it
