#!/bin/bash
# detection regression: every self-mutant and every seeded change (overlay mode: /repo untouched)
cd "$(dirname "$0")/.."
export VERIF_GOCACHE=/verif/.gocache
python3 tools/mut.py all quick | grep -E "CAUGHT|MISSED|pairs"
for d in seeded/*/; do
  id=$(basename "$d")
  [ -f "$d/meta.json" ] || continue
  SEED_MODE=overlay python3 tools/seed.py check "$id" quick 2>&1 | cut -c1-200
done
python3 tools/seed.py table > seeded/TABLE.overlay.md
echo REGRESS-DONE
