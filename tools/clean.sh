#!/bin/bash
# remove scratch output of checks (replay files of mutant runs, worker files)
rm -f /verif/replays/*.json
rm -rf /verif/work/*
