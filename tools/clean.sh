#!/bin/bash
# remove scratch output of checks (replay files of mutant runs, worker files)
rm -f /verif/replays/*.json /verif/replays/*_test.go.txt
rm -rf /verif/work/*
