#!/bin/bash
# run every seeded change against the check of the property it breaks, by literally applying the
# patch to /repo (git apply) and undoing it afterwards (git checkout -- .)
cd /verif
tier="${1:-quick}"
for d in seeded/*/; do
  id=$(basename "$d")
  SEED_MODE=apply python3 tools/seed.py check "$id" "$tier" 2>&1 | cut -c1-300
  git -C /repo status --porcelain | grep -q . && { echo "REPO DIRTY after $id"; git -C /repo checkout -- .; }
done
python3 tools/seed.py table > seeded/TABLE.md
echo ALL-DONE
