#!/bin/bash
# /verif/check.sh <Cnn> <quick|thorough>   |   /verif/check.sh replay <file>
# Rebuilds the checker against /repo's current working tree, then runs it.
#   VERIF_OVERLAY=<overlay.json>  build with go build -overlay (self-mutation runs)
#   VERIF_COVER=0|1               statement coverage of the anchored files in the evidence
#                                 (default: on for thorough, off for quick)
set -u
cd "$(dirname "$0")"
export VERIF_DIR="$(pwd)"
export GOFLAGS=-mod=mod GOPROXY=off GOSUMDB=off GOTOOLCHAIN=local CGO_ENABLED=1
export GOCACHE="${VERIF_GOCACHE:-$VERIF_DIR/.gocache}"
mkdir -p bin work evidence replays
# every invocation links its own binaries (bin/run.<pid>/): invocations may run in parallel, with
# different overlays, without overwriting a binary that another one is executing
BINDIR="$VERIF_DIR/bin/run.$$"
export VERIF_WORKDIR="$VERIF_DIR/work/run.$$"
mkdir -p "$BINDIR" "$VERIF_WORKDIR"
trap 'rm -rf "$BINDIR" "$VERIF_WORKDIR"' EXIT
cp -f /repo/go.sum mc/go.sum 2>/dev/null || true
OV=()
if [ -n "${VERIF_OVERLAY:-}" ]; then OV=(-overlay "$VERIF_OVERLAY"); fi
build() {
  (cd mc && go build "${OV[@]}" -o "$BINDIR/vmc" . ) || { echo "BUILD FAILED (plain)" >&2; exit 3; }
}
build_race() {
  (cd mc && go build -race "${OV[@]}" -o "$BINDIR/vmc-race" . ) || { echo "BUILD FAILED (race)" >&2; exit 3; }
}
build_cover() {
  (cd mc && go build -cover -coverpkg=github.com/emirpasic/gods/v2/...,verif/mc "${OV[@]}" -o "$BINDIR/vmc-cover" . ) || { echo "BUILD FAILED (cover)" >&2; exit 3; }
}
case "${1:-}" in
  replay) build; "$BINDIR/vmc" replay "${2:?replay file}"; exit $? ;;
  build) build; build_race; build_cover; exit 0 ;;
  C*)
    prop="$1"; tier="${2:-${VERIF_TIER:-quick}}"
    build
    [ "$prop" = C18 ] && build_race
    cover="${VERIF_COVER:-}"
    if [ -z "$cover" ]; then if [ "$tier" = thorough ]; then cover=1; else cover=0; fi; fi
    if [ "$cover" = 1 ]; then
      build_cover
      export VERIF_COVERDIR="$VERIF_WORKDIR/cov.$prop"
      rm -rf "$VERIF_COVERDIR"; mkdir -p "$VERIF_COVERDIR"
    fi
    "$BINDIR/vmc" check "$prop" "$tier"; rc=$?
    [ -n "${VERIF_COVERDIR:-}" ] && rm -rf "$VERIF_COVERDIR"
    exit $rc ;;
  *) echo "usage: check.sh <Cnn> <quick|thorough> | replay <file> | build" >&2; exit 2 ;;
esac
