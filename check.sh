#!/bin/bash
# /verif/check.sh <Cnn> <quick|thorough>   |   /verif/check.sh replay <file>
# Rebuilds the checker against /repo's current working tree, then runs it.
set -u
cd "$(dirname "$0")"
export VERIF_DIR="$(pwd)"
export GOFLAGS=-mod=mod GOPROXY=off GOSUMDB=off GOTOOLCHAIN=local CGO_ENABLED=1
export GOCACHE="${VERIF_GOCACHE:-$VERIF_DIR/.gocache}"
mkdir -p bin work evidence replays
OV=()
if [ -n "${VERIF_OVERLAY:-}" ]; then OV=(-overlay "$VERIF_OVERLAY"); fi
build() {
  (cd mc && go build "${OV[@]}" -o ../bin/vmc . ) || { echo "BUILD FAILED (plain)" >&2; exit 3; }
}
build_race() {
  (cd mc && go build -race "${OV[@]}" -o ../bin/vmc-race . ) || { echo "BUILD FAILED (race)" >&2; exit 3; }
}
case "${1:-}" in
  replay) build; exec ./bin/vmc replay "$2" ;;
  build) build; build_race; exit 0 ;;
  C18) build; build_race; exec ./bin/vmc check "$1" "${2:-quick}" ;;
  C*) build; exec ./bin/vmc check "$1" "${2:-quick}" ;;
  *) echo "usage: check.sh <Cnn> <quick|thorough> | replay <file> | build" >&2; exit 2 ;;
esac
